package main

import (
	"bytes"
	"encoding/json"
	"fmt"
	"os"
	"sort"
	"strings"

	"github.com/carapace-sh/carapace"
	"github.com/spf13/cobra"
	"github.com/spf13/pflag"
)

// ---- TreeSpec: a cobra command tree as data (shared with the Lean side)

type flagSpec struct {
	Name       string `json:"name"`
	Short      string `json:"short"`
	Kind       string `json:"kind"` // bool | count | string | stringSlice | optString
	Persistent bool   `json:"persistent"`
	Hidden     bool   `json:"hidden"`
	Deprecated bool   `json:"deprecated"`
	ShortDepr  bool   `json:"shortDeprecated"`
	Mutex      []int  `json:"mutex"` // ids of mutually exclusive groups (per command)
	// features of the carapace-pflag fork
	Nargs int    `json:"nargs"` // 0 = one value; n > 1: n values; -1: every following word up to the next flag
	Delim string `json:"delim"` // "" = the default `=`; otherwise the character that attaches an optional / a value argument
	Mode  int    `json:"mode"`  // 0 default; 1 ShorthandOnly (`-short` only); 2 NameAsShorthand (`-short`, `-name`, `--name`); the shorthand may be a word (non-POSIX)
}

type cmdSpec struct {
	Name         string     `json:"name"`
	Aliases      []string   `json:"aliases"`
	Parent       int        `json:"parent"` // -1 for the root
	Hidden       bool       `json:"hidden"`
	Deprecated   bool       `json:"deprecated"`
	Interspersed bool       `json:"interspersed"`
	NoFlagParse  bool       `json:"disableFlagParsing"`
	Whitelist    bool       `json:"whitelist"` // FParseErrWhitelist.UnknownFlags: the program tolerates unknown flags
	Version      bool       `json:"version"`   // the command has a Version: cobra adds `--version` (`-v` if free) to it
	Group        string     `json:"group"`     // cobra command group the sub-command belongs to ("" = none)
	Dynamic      bool       `json:"dynamic"`   // the sub-command is added to its parent in the parent's carapace PreRun (completion time), not statically
	Flags        []flagSpec `json:"flags"`
	NPos         int        `json:"npos"`
	PosAny       bool       `json:"posAny"`
	NDash        int        `json:"ndash"`
	DashAny      bool       `json:"dashAny"`
}

type treeSpec struct {
	Cmds []cmdSpec `json:"cmds"`
	// cobra's process-wide switches for sub-command names: a unique prefix / another case of a name dispatches too
	PrefixMatching  bool `json:"prefixMatching"`
	CaseInsensitive bool `json:"caseInsensitive"`
}

type runRecord struct {
	Ran       bool              `json:"ran"`
	Cmd       int               `json:"cmd"`
	Args      []string          `json:"args"`
	LenAtDash int               `json:"lenAtDash"`
	Flags     map[string]string `json:"flags"` // changed flags of the executed command (incl. inherited)
	Err       string            `json:"err,omitempty"`
}

func marker(cmd int, kind string) string { return fmt.Sprintf("M%d_%s", cmd, kind) }

func buildTree(spec treeSpec, rec *runRecord) []*cobra.Command {
	cmds := make([]*cobra.Command, len(spec.Cmds))
	for i, cs := range spec.Cmds {
		i, cs := i, cs
		c := &cobra.Command{
			Use:                cs.Name,
			Aliases:            cs.Aliases,
			Hidden:             cs.Hidden,
			DisableFlagParsing: cs.NoFlagParse,
			Args:               cobra.ArbitraryArgs,
			SilenceErrors:      true,
			SilenceUsage:       true,
			Run: func(cmd *cobra.Command, args []string) {
				rec.Ran = true
				rec.Cmd = i
				rec.Args = append([]string{}, args...)
				rec.LenAtDash = cmd.ArgsLenAtDash()
				rec.Flags = map[string]string{}
				cmd.Flags().Visit(func(f *pflag.Flag) { rec.Flags[f.Name] = f.Value.String() })
			},
		}
		if cs.Deprecated {
			c.Deprecated = "deprecated"
		}
		if cs.Version {
			c.Version = "1.2.3"
		}
		c.Flags().SetInterspersed(cs.Interspersed)
		c.FParseErrWhitelist.UnknownFlags = cs.Whitelist
		for _, fsp := range cs.Flags {
			fs := c.Flags()
			if fsp.Persistent {
				fs = c.PersistentFlags()
			}
			switch {
			case fsp.Mode == 1 && fsp.Kind == "bool":
				fs.BoolS(fsp.Name, fsp.Short, false, "usage "+fsp.Name)
			case fsp.Mode == 2 && fsp.Kind == "bool":
				fs.BoolN(fsp.Name, fsp.Short, false, "usage "+fsp.Name)
			case fsp.Mode == 1 && fsp.Kind == "count":
				fs.CountS(fsp.Name, fsp.Short, "usage "+fsp.Name)
			case fsp.Mode == 2 && fsp.Kind == "count":
				fs.CountN(fsp.Name, fsp.Short, "usage "+fsp.Name)
			case fsp.Mode == 1 && fsp.Kind == "stringSlice":
				fs.StringSliceS(fsp.Name, fsp.Short, nil, "usage "+fsp.Name)
			case fsp.Mode == 2 && fsp.Kind == "stringSlice":
				fs.StringSliceN(fsp.Name, fsp.Short, nil, "usage "+fsp.Name)
			case fsp.Mode == 1:
				fs.StringS(fsp.Name, fsp.Short, "", "usage "+fsp.Name)
			case fsp.Mode == 2:
				fs.StringN(fsp.Name, fsp.Short, "", "usage "+fsp.Name)
			}
			kind := fsp.Kind
			if fsp.Mode != 0 {
				kind = "-" // defined above
			}
			switch kind {
			case "-":
			case "bool":
				fs.BoolP(fsp.Name, fsp.Short, false, "usage "+fsp.Name)
			case "count":
				fs.CountP(fsp.Name, fsp.Short, "usage "+fsp.Name)
			case "stringSlice":
				fs.StringSliceP(fsp.Name, fsp.Short, nil, "usage "+fsp.Name)
			case "stringArray":
				fs.StringArrayP(fsp.Name, fsp.Short, nil, "usage "+fsp.Name)
			case "ipNetSlice":
				fs.IPNetSliceP(fsp.Name, fsp.Short, nil, "usage "+fsp.Name)
			case "boolSlice":
				fs.BoolSliceP(fsp.Name, fsp.Short, nil, "usage "+fsp.Name)
			case "optString":
				fs.StringP(fsp.Name, fsp.Short, "", "usage "+fsp.Name)
				fs.Lookup(fsp.Name).NoOptDefVal = "dflt"
			default:
				fs.StringP(fsp.Name, fsp.Short, "", "usage "+fsp.Name)
			}
			f := fs.Lookup(fsp.Name)
			f.Hidden = fsp.Hidden
			if fsp.Deprecated {
				f.Deprecated = "deprecated"
			}
			if fsp.ShortDepr && fsp.Short != "" {
				f.ShorthandDeprecated = "deprecated"
			}
			if fsp.Nargs != 0 {
				f.Nargs = fsp.Nargs
			}
			if fsp.Delim != "" {
				f.OptargDelimiter = []rune(fsp.Delim)[0]
			}
		}
		cmds[i] = c
	}
	for i, cs := range spec.Cmds {
		if cs.Parent >= 0 {
			if cs.Group != "" {
				cmds[i].GroupID = cs.Group
				if !cmds[cs.Parent].ContainsGroup(cs.Group) {
					cmds[cs.Parent].AddGroup(&cobra.Group{ID: cs.Group, Title: "Group " + cs.Group})
				}
			}
			if cs.Dynamic && dynamicChildren {
				continue // linked by the parent's PreRun (registerDynamicChildren)
			}
			cmds[cs.Parent].AddCommand(cmds[i])
		}
	}
	// mutually exclusive groups (after the tree is linked: persistent flags resolve)
	for i, cs := range spec.Cmds {
		groups := map[int][]string{}
		for _, f := range cs.Flags {
			for _, g := range f.Mutex {
				groups[g] = append(groups[g], f.Name)
			}
		}
		ids := []int{}
		for g := range groups {
			ids = append(ids, g)
		}
		sort.Ints(ids)
		for _, g := range ids {
			if len(groups[g]) > 1 {
				cmds[i].MarkFlagsMutuallyExclusive(groups[g]...)
			}
		}
	}
	cmds[0].CompletionOptions.DisableDefaultCmd = true
	return cmds
}

// dynamicChildren: while set, buildTree leaves the sub-commands marked `dynamic` unlinked; registerDynamicChildren makes
// the parent's carapace PreRun add them (once) - the way a program adds plugin commands at completion time.
// The program itself (executeLine) always has them.
var dynamicChildren bool

func registerDynamicChildren(spec treeSpec, cmds []*cobra.Command) {
	for p := range spec.Cmds {
		kids := []*cobra.Command{}
		for i, cs := range spec.Cmds {
			if cs.Parent == p && cs.Dynamic {
				kids = append(kids, cmds[i])
			}
		}
		if len(kids) > 0 {
			done := false
			carapace.Gen(cmds[p]).PreRun(func(cmd *cobra.Command, args []string) {
				if !done {
					done = true
					cmd.AddCommand(kids...)
				}
			})
		}
	}
}

// cobraSideMarkers: register the markers with cobra's own API (RegisterFlagCompletionFunc,
// ValidArgsFunction) instead of carapace's (op ccomplete, C20 second half)
var cobraSideMarkers bool

// mixedMarkers: on every command, every second value flag is registered with cobra's API, the others
// (and the positionals) with carapace's: both kinds must be served by both protocols
var mixedMarkers bool

func registerCobraMarkers(spec treeSpec, cmds []*cobra.Command) {
	for i, cs := range spec.Cmds {
		i := i
		carapace.Gen(cmds[i])
		for _, f := range cs.Flags {
			if f.Kind != "bool" && f.Kind != "count" {
				name := f.Name
				_ = cmds[i].RegisterFlagCompletionFunc(name, func(cmd *cobra.Command, args []string, toComplete string) ([]string, cobra.ShellCompDirective) {
					d := cobra.ShellCompDirectiveNoFileComp
					if len(name)%2 == 1 {
						d |= cobra.ShellCompDirectiveNoSpace
					}
					return []string{marker(i, "flag_"+name) + "\tdesc of " + name, marker(i, "flag_"+name) + "2"}, d
				})
			}
		}
		if cs.NPos > 0 || cs.PosAny {
			cmds[i].ValidArgsFunction = func(cmd *cobra.Command, args []string, toComplete string) ([]string, cobra.ShellCompDirective) {
				d := cobra.ShellCompDirectiveNoFileComp
				if len(args)%2 == 1 {
					d |= cobra.ShellCompDirectiveNoSpace
				}
				return []string{marker(i, fmt.Sprintf("vaf%d", len(args))) + "\tafter[" + strings.Join(args, ",") + "]"}, d
			}
		}
	}
}

func registerMarkers(spec treeSpec, cmds []*cobra.Command) {
	if cobraSideMarkers {
		registerCobraMarkers(spec, cmds)
		return
	}
	for i, cs := range spec.Cmds {
		i := i
		g := carapace.Gen(cmds[i])
		am := carapace.ActionMap{}
		nth := 0
		for _, f := range cs.Flags {
			if f.Kind != "bool" && f.Kind != "count" {
				nth++
				if mixedMarkers && nth%2 == 0 {
					name := f.Name
					_ = cmds[i].RegisterFlagCompletionFunc(name, func(cmd *cobra.Command, args []string, toComplete string) ([]string, cobra.ShellCompDirective) {
						return []string{marker(i, "flag_"+name)}, cobra.ShellCompDirectiveNoFileComp
					})
					continue
				}
				am[f.Name] = carapace.ActionValues(marker(i, "flag_"+f.Name))
			}
		}
		if len(am) > 0 {
			g.FlagCompletion(am)
		}
		pos := []carapace.Action{}
		for k := 0; k < cs.NPos; k++ {
			pos = append(pos, carapace.ActionValues(marker(i, fmt.Sprintf("pos%d", k))))
		}
		if mixedMarkers && i%2 == 0 && (cs.NPos > 0 || cs.PosAny) {
			// a command that mixes both styles: its positional arguments are completed by a function the program itself set
			// with cobra's API, its flags (above) through carapace
			cmds[i].ValidArgsFunction = func(cmd *cobra.Command, args []string, toComplete string) ([]string, cobra.ShellCompDirective) {
				return []string{marker(i, fmt.Sprintf("vaf%d", len(args)))}, cobra.ShellCompDirectiveNoFileComp
			}
			pos = nil
			cs.PosAny = false
			// (cobra has one function per command for everything that is not a flag value: nothing of carapace's can sit beside it)
			cs.NDash, cs.DashAny = 0, false
		}
		if len(pos) > 0 {
			g.PositionalCompletion(pos...)
		}
		if cs.PosAny {
			g.PositionalAnyCompletion(carapace.ActionValues(marker(i, "posAny")))
		}
		dash := []carapace.Action{}
		for k := 0; k < cs.NDash; k++ {
			dash = append(dash, carapace.ActionValues(marker(i, fmt.Sprintf("dash%d", k))))
		}
		if len(dash) > 0 {
			g.DashCompletion(dash...)
		}
		if cs.DashAny {
			g.DashAnyCompletion(carapace.ActionValues(marker(i, "dashAny")))
		}
	}
}

func executeLine(spec treeSpec, words []string) runRecord {
	rec := runRecord{Cmd: -1, LenAtDash: -1}
	cmds := buildTree(spec, &rec)
	root := cmds[0]
	var out bytes.Buffer
	root.SetOut(&out)
	root.SetErr(&out)
	root.SetArgs(words)
	func() {
		defer func() {
			if p := recover(); p != nil {
				rec.Err = "panic: " + fmt.Sprint(p)
			}
		}()
		if err := root.Execute(); err != nil {
			rec.Err = err.Error()
		}
	}()
	return rec
}

type exportDoc struct {
	Messages []string `json:"messages"`
	Nospace  string   `json:"nospace"`
	Usage    string   `json:"usage"`
	Values   []struct {
		Value       string `json:"value"`
		Display     string `json:"display"`
		Description string `json:"description"`
		Tag         string `json:"tag"`
	} `json:"values"`
}

// completeLine runs the real entry point: `<root> _carapace export <root> words...`
func completeLine(spec treeSpec, words []string) (doc exportDoc, raw string, perr string) {
	rec := runRecord{}
	dynamicChildren = true
	cmds := buildTree(spec, &rec)
	dynamicChildren = false
	registerMarkers(spec, cmds)
	registerDynamicChildren(spec, cmds)
	root := cmds[0]
	var out bytes.Buffer
	root.SetOut(&out)
	root.SetErr(&out)
	root.SetArgs(append([]string{"_carapace", "export", spec.Cmds[0].Name}, words...))
	func() {
		defer func() {
			if p := recover(); p != nil {
				perr = fmt.Sprint(p)
			}
		}()
		if err := root.Execute(); err != nil {
			perr = "execute: " + err.Error()
		}
	}()
	raw = out.String()
	if i := strings.Index(raw, "{"); i >= 0 {
		json.Unmarshal([]byte(raw[i:]), &doc)
	}
	return
}

type parseIn struct {
	Tree      treeSpec `json:"tree"`
	Words     []string `json:"words"`     // the last one is the word under the cursor
	HiddenEnv bool     `json:"hiddenEnv"` // CARAPACE_HIDDEN=1
	CobraSide bool     `json:"cobraSide"` // ccomplete only: completions registered through cobra's API
	Mixed     bool     `json:"mixed"`     // ccomplete only: every second value flag through cobra's API, the rest through carapace's
}

func runParse(raw json.RawMessage) interface{} {
	var in parseIn
	must(json.Unmarshal(raw, &in))
	invalid := len(in.Tree.Cmds) == 0 || len(in.Words) == 0
	for i, c := range in.Tree.Cmds {
		// a command's parent comes before it (the root has none): anything else is no tree
		if (i == 0 && c.Parent >= 0) || (i > 0 && (c.Parent < 0 || c.Parent >= i)) {
			invalid = true
		}
	}
	if invalid {
		// not a case (the shrinker tries such inputs): nothing to decide
		return map[string]interface{}{"export": exportDoc{}, "panic": "", "runs": []interface{}{}}
	}
	os.Setenv("CARAPACE_UNFILTERED", "1")
	defer os.Unsetenv("CARAPACE_UNFILTERED")
	for _, k := range []string{"COMP_LINE", "COMP_POINT", "CARAPACE_COMPLINE", "CARAPACE_HIDDEN", "CARAPACE_LENIENT", "NO_COLOR"} {
		os.Unsetenv(k)
	}
	carapace.VerifSetMatch(false)
	if in.HiddenEnv {
		os.Setenv("CARAPACE_HIDDEN", "1")
		defer os.Unsetenv("CARAPACE_HIDDEN")
	}
	cobra.EnablePrefixMatching = in.Tree.PrefixMatching
	cobra.EnableCaseInsensitive = in.Tree.CaseInsensitive
	defer func() { cobra.EnablePrefixMatching = false; cobra.EnableCaseInsensitive = false }()
	doc, rawOut, perr := completeLine(in.Tree, in.Words)
	out := map[string]interface{}{"export": doc, "panic": perr}
	if len(doc.Values) == 0 && len(doc.Messages) == 0 && perr == "" {
		out["rawOut"] = rawOut
	}
	earlier := in.Words[:len(in.Words)-1]
	// the line as typed so far (is it acceptable at all?)
	out["typedRun"] = executeLine(in.Tree, earlier)
	// ... and with the current word taken as complete (a shorthand series in progress: are the letters typed so far acceptable?)
	if cur := in.Words[len(in.Words)-1]; len(cur) >= 2 && cur[0] == '-' && cur[1] != '-' {
		out["typedCurRun"] = executeLine(in.Tree, in.Words)
	}
	// where would the program's own parser put a word typed here? (model-free completeness side of C01)
	if cur := in.Words[len(in.Words)-1]; !strings.HasPrefix(cur, "-") {
		out["probeRun"] = executeLine(in.Tree, append(append([]string{}, earlier...), "PROBE"))
	}
	// which flag names does the program itself accept here? (model-free completeness side of C07): every flag visible from the
	// command the line so far dispatches to - and cobra's automatic `--version` - typed as the current word, with a value if it needs one
	if cur := in.Words[len(in.Words)-1]; cur == "-" || cur == "--" {
		if tr, ok := out["typedRun"].(runRecord); ok && tr.Err == "" && tr.Ran && tr.Cmd >= 0 && tr.Cmd < len(in.Tree.Cmds) {
			fl := flagsOf(in.Tree, tr.Cmd)
			if in.Tree.Cmds[tr.Cmd].Version {
				fl = append(fl, flagSpec{Name: "version", Kind: "bool"})
			}
			probes := []map[string]interface{}{}
			for _, f := range fl {
				if len(probes) >= 10 || f.Mode != 0 {
					continue
				}
				line := append(append([]string{}, earlier...), "--"+f.Name)
				rec := executeLine(in.Tree, line)
				for _, val := range []string{"VAL", "10.0.0.0/8", "true"} {
					if strings.Contains(rec.Err, "needs an argument") || strings.Contains(rec.Err, "CIDR") || strings.Contains(rec.Err, "ParseBool") || strings.Contains(rec.Err, "invalid argument") {
						rec = executeLine(in.Tree, append(line, val))
					}
				}
				probes = append(probes, map[string]interface{}{"name": f.Name, "run": rec})
			}
			out["flagProbes"] = probes
		}
	}
	// ... and inside a shorthand series (`-ab<TAB>`): which letters can the program take next?
	if cur := in.Words[len(in.Words)-1]; len(cur) >= 2 && cur[0] == '-' && cur[1] != '-' && !strings.Contains(cur, "=") {
		if tr, ok := out["typedCurRun"].(runRecord); ok && tr.Err == "" && tr.Ran && tr.Cmd >= 0 && tr.Cmd < len(in.Tree.Cmds) {
			fl := flagsOf(in.Tree, tr.Cmd)
			if in.Tree.Cmds[tr.Cmd].Version {
				used := false
				for _, f := range fl {
					used = used || f.Short == "v"
				}
				if !used {
					fl = append(fl, flagSpec{Name: "version", Short: "v", Kind: "bool"})
				}
			}
			probes := []map[string]interface{}{}
			for _, f := range fl {
				if len(probes) >= 10 || f.Mode != 0 || len(f.Short) != 1 {
					continue
				}
				line := append(append([]string{}, earlier...), cur+f.Short)
				rec := executeLine(in.Tree, line)
				for _, val := range []string{"VAL", "10.0.0.0/8", "true"} {
					if strings.Contains(rec.Err, "needs an argument") || strings.Contains(rec.Err, "CIDR") || strings.Contains(rec.Err, "ParseBool") || strings.Contains(rec.Err, "invalid argument") {
						rec = executeLine(in.Tree, append(line, val))
					}
				}
				probes = append(probes, map[string]interface{}{"name": f.Name, "short": f.Short, "run": rec})
			}
			out["chainProbes"] = probes
		}
	}
	// accept every offered candidate in turn and let the program's own parser place it
	runs := []map[string]interface{}{}
	seen := map[string]bool{}
	for _, v := range doc.Values {
		if seen[v.Value] || len(runs) >= 12 {
			continue
		}
		seen[v.Value] = true
		line := append(append([]string{}, earlier...), v.Value)
		isFlagName := v.Tag == "longhand flags" || v.Tag == "shorthand flags"
		var rec runRecord
		withValue := false
		if isFlagName {
			// a flag name: is it accepted (with a value if it needs one) and does it set that flag?
			rec = executeLine(in.Tree, line)
			if strings.Contains(rec.Err, "needs an argument") {
				rec = executeLine(in.Tree, append(line, "VAL"))
				if strings.Contains(rec.Err, "CIDR") {
					rec = executeLine(in.Tree, append(line, "10.0.0.0/8")) // a value the flag's type accepts
				}
				if strings.Contains(rec.Err, "ParseBool") {
					rec = executeLine(in.Tree, append(line, "true"))
				}
				withValue = true
			}
		} else {
			rec = executeLine(in.Tree, line)
		}
		runs = append(runs, map[string]interface{}{"value": v.Value, "tag": v.Tag, "run": rec, "withValue": withValue})
	}
	out["runs"] = runs
	return out
}

// ---------------------------------------------------------------- generator

var shortPool = []string{"a", "b", "c", "v", "n", "o", "a", "b", "c", "v", "n", "o", "?", "@"} // any ASCII character but `-` can be a shorthand

func genTree(r *rng) treeSpec {
	t := treeSpec{}
	names := []string{"root", "sub", "mid", "leaf", "other", "deep"}
	n := 1 + r.intn(4)
	for i := 0; i < n; i++ {
		c := cmdSpec{Name: names[i], Parent: -1, Interspersed: !r.chance(20)}
		c.Version = r.chance(12)
		if i > 0 {
			c.Parent = r.intn(i)
			if r.chance(25) {
				c.Aliases = []string{names[i] + "alias"}
			}
			c.Hidden = r.chance(10)
			c.Deprecated = r.chance(8)
			c.NoFlagParse = r.chance(6)
			if r.chance(15) {
				c.Group = pick(r, []string{"g1", "g2", "Main Commands"})
			}
			c.Dynamic = r.chance(8)
		}
		usedShort := map[string]bool{}
		usedName := map[string]bool{}
		nf := r.intn(5)
		for k := 0; k < nf; k++ {
			name := pick(r, []string{"name", "verbose", "out", "tag", "opt", "cnt", "all", "id", "group.a", "group.b"})
			if usedName[name] {
				continue
			}
			usedName[name] = true
			f := flagSpec{Name: name, Kind: pick(r, []string{"bool", "bool", "string", "string", "count", "stringSlice", "optString", "bool", "string", "stringSlice", "count", "optString", "stringArray", "ipNetSlice", "boolSlice"})}
			f.Persistent = r.chance(25)
			if f.Persistent {
				// persistent flags live in a name space of their own (cobra panics when an inherited
				// shorthand is redefined): one per command
				f.Name = "p" + names[i]
				if usedName[f.Name] {
					continue
				}
				usedName[f.Name] = true
				if r.chance(60) {
					f.Short = []string{"r", "s", "m", "l", "t", "d"}[i]
				}
			} else if r.chance(60) {
				s := pick(r, shortPool)
				if !usedShort[s] {
					usedShort[s] = true
					f.Short = s
				}
			}
			f.Hidden = r.chance(8)
			f.Deprecated = r.chance(6)
			f.ShortDepr = r.chance(6)
			if r.chance(25) {
				f.Mutex = []int{r.intn(2)}
				if r.chance(20) {
					f.Mutex = []int{0, 1}
				}
			}
			c.Flags = append(c.Flags, f)
		}
		c.NPos = r.intn(3)
		c.PosAny = r.chance(40)
		c.NDash = r.intn(2)
		c.DashAny = r.chance(40)
		t.Cmds = append(t.Cmds, c)
	}
	// persistent flag names must not clash with descendants' flags of another type? (allowed: shadowing is a feature under test)
	return t
}

// flags visible from command i (own + persistent of ancestors)
func flagsOf(t treeSpec, i int) []flagSpec {
	out := append([]flagSpec{}, t.Cmds[i].Flags...)
	for p := t.Cmds[i].Parent; p >= 0; p = t.Cmds[p].Parent {
		for _, f := range t.Cmds[p].Flags {
			if f.Persistent {
				out = append(out, f)
			}
		}
	}
	return out
}

func childrenOf(t treeSpec, i int) []int {
	out := []int{}
	for k, c := range t.Cmds {
		if c.Parent == i {
			out = append(out, k)
		}
	}
	return out
}

func genLine(r *rng, t treeSpec) []string {
	words := []string{}
	cur := 0
	steps := r.intn(6)
	takesValue := func(f flagSpec) bool {
		return f.Kind == "string" || f.Kind == "stringSlice" || f.Kind == "stringArray" || f.Kind == "ipNetSlice" || f.Kind == "boolSlice"
	}
	for s := 0; s < steps; s++ {
		fl := flagsOf(t, cur)
		switch k := r.intn(12); {
		case k < 5 && len(fl) > 0:
			f := pick(r, fl)
			switch {
			case f.Kind == "ipNetSlice":
				// mostly values the flag accepts
				v := pick(r, []string{"10.0.0.0/8", "10.1.0.0/16", "10.0.0.0/8", "v1"})
				if r.chance(50) {
					words = append(words, "--"+f.Name, v)
				} else {
					words = append(words, "--"+f.Name+"="+v)
				}
			case f.Kind == "boolSlice":
				// mostly values the flag accepts
				v := pick(r, []string{"true", "false", "true,false", "1", "maybe"})
				if r.chance(60) {
					words = append(words, "--"+f.Name, v)
				} else {
					words = append(words, "--"+f.Name+"="+v)
				}
			case takesValue(f) && r.chance(40):
				words = append(words, "--"+f.Name, pick(r, []string{"v1", "v2", "--", "sub", "-x", ""}))
			case takesValue(f) && r.chance(50):
				words = append(words, "--"+f.Name+"="+pick(r, []string{"v1", "", "a=b"}))
			case takesValue(f) && f.Short != "":
				if r.chance(50) {
					words = append(words, "-"+f.Short, "v3")
				} else {
					words = append(words, "-"+f.Short+"v4")
				}
			case f.Kind == "optString":
				words = append(words, pick(r, []string{"--" + f.Name, "--" + f.Name + "=x"}))
			case f.Short != "" && r.chance(50):
				// a chain of shorthands
				chain := "-" + f.Short
				for _, g := range fl {
					if g.Short != "" && g.Short != f.Short && r.chance(40) {
						chain += g.Short
					}
				}
				words = append(words, chain)
			default:
				words = append(words, "--"+f.Name)
			}
		case k < 8:
			ch := childrenOf(t, cur)
			if len(ch) > 0 {
				c := pick(r, ch)
				name := t.Cmds[c].Name
				if len(t.Cmds[c].Aliases) > 0 && r.chance(30) {
					name = t.Cmds[c].Aliases[0]
				}
				words = append(words, name)
				cur = c
			} else {
				words = append(words, "arg"+itoa(s))
			}
		case k < 10:
			words = append(words, pick(r, []string{"arg", "p1", "", "-", "x y"}))
		case k == 10:
			words = append(words, "--")
		default:
			words = append(words, pick(r, []string{"--unknown", "-z", "--name", "-"}))
		}
	}
	// the word under the cursor
	fl := flagsOf(t, cur)
	switch k := r.intn(12); {
	case k < 5:
		words = append(words, "")
	case k < 7:
		words = append(words, pick(r, []string{"-", "--", "--n", "--gr"}))
	case k < 9 && len(fl) > 0:
		f := pick(r, fl)
		switch r.intn(4) {
		case 0:
			words = append(words, "--"+f.Name+"=")
		case 1:
			if f.Short != "" {
				words = append(words, "-"+f.Short)
			} else {
				words = append(words, "--"+f.Name)
			}
		case 2:
			if f.Short != "" {
				chain := "-"
				for _, g := range fl {
					if g.Short != "" && r.chance(50) {
						chain += g.Short
					}
				}
				words = append(words, chain+f.Short)
			} else {
				words = append(words, "-")
			}
		default:
			if f.Short != "" {
				words = append(words, "-"+f.Short+"=")
			} else {
				words = append(words, "--"+f.Name[:1])
			}
		}
	default:
		words = append(words, pick(r, []string{"a", "s", "M", "arg"}))
	}
	return words
}

func indexOfCmd(t treeSpec, name string) int {
	for i, c := range t.Cmds {
		if c.Name == name {
			return i
		}
	}
	return 0
}

// genParseFork: the features of the carapace-pflag fork in POSIX flag sets - flags that take several
// words (Nargs 2, 3, or -1: up to the next flag-like word) and flags whose attached argument is
// introduced by a character other than `=`
func genParseFork(r *rng, t treeSpec) parseIn {
	k := r.intn(len(t.Cmds))
	c := &t.Cmds[k]
	c.NoFlagParse = false
	if r.chance(85) {
		c.Interspersed = true
	}
	delim := pick(r, []string{":", "/", "%", ":"})
	c.Flags = []flagSpec{
		{Name: "color", Kind: pick(r, []string{"string", "optString", "string"}), Delim: delim},
		{Name: "files", Short: pick(r, []string{"f", "f", ""}), Kind: pick(r, []string{"stringSlice", "stringArray"}), Nargs: pick(r, []int{-1, -1, 2, 3})},
		{Name: "plain", Short: "p", Kind: "string"},
		{Name: "yes", Short: "y", Kind: "bool"},
	}
	if r.chance(25) {
		// a shorthand together with a custom delimiter
		c.Flags = append(c.Flags, flagSpec{Name: "level", Short: "e", Kind: pick(r, []string{"string", "optString"}), Delim: delim})
	}
	if r.chance(20) {
		c.Flags = append(c.Flags, flagSpec{Name: "pair", Kind: "stringSlice", Nargs: 2, Delim: delim})
	}
	if c.NPos == 0 {
		c.NPos = 2
	}
	c.PosAny = true
	words := []string{}
	for p := k; p > 0; p = t.Cmds[p].Parent {
		words = append([]string{t.Cmds[p].Name}, words...)
	}
	files := "--files"
	if c.Flags[1].Short != "" && r.chance(40) {
		files = "-f"
	}
	for n := r.intn(3); n > 0; n-- {
		words = append(words, pick(r, [][]string{
			{files, "a"}, {files, "a", "b"}, {files, "a", "-"}, {files, "a", "b", "-", "x"}, {files, "a", "b", "c", "d"},
			{"--files=a"}, {"--files=a", "b"}, {files, "a", "--yes"}, {files, "a", "-y", "b"}, {files, "-"}, {files, "--", "x"},
			{files}, {files, ""}, {files, "a", ""},
			{"--color" + delim + "red"}, {"--color", "red"}, {"--color=red"}, {"--color" + delim}, {"--color"},
			{"--plain", "v"}, {"-y"}, {"pos"}, {"--"}, {"--pair", "k", "v"}, {"--pair" + delim + "k", "v"}, {"-e" + delim + "3"}, {"-e", "3"},
		})...)
	}
	words = append(words, pick(r, []string{"", "", "", "x", "-", "--", "--co", "--color" + delim, "--color" + delim + "r", "--color=", "--color",
		"--files", "--files=", "-f", "-fa", "-y", "-e" + delim, "-e", "-e=", "--level" + delim, "--pair" + delim}))
	return parseIn{Tree: t, Words: words}
}

// genParseUnknown: a program that tolerates unknown flags (FParseErrWhitelist.UnknownFlags): an unknown
// flag takes the next word along unless that word looks like a flag, so what carapace counts as a
// positional and what the parser does differ
func genParseUnknown(r *rng, t treeSpec) parseIn {
	for i := range t.Cmds {
		t.Cmds[i].Whitelist = true
	}
	k := r.intn(len(t.Cmds))
	t.Cmds[k].NoFlagParse = false
	words := []string{}
	for p := k; p > 0; p = t.Cmds[p].Parent {
		words = append([]string{t.Cmds[p].Name}, words...)
	}
	for n := 1 + r.intn(2); n > 0; n-- {
		words = append(words, pick(r, [][]string{{"--color", "always"}, {"--color=always"}, {"--color"}, {"-z"}, {"-z", "val"}, {"-zq", "val"}, {"-z=1"}, {"-z=1", "val"},
			{"--color", "-z"}, {"--color", ""}, {"--color", "--", "x"}, {"pos"}, {"-z", "-"}})...)
	}
	ch := childrenOf(t, k)
	cur := pick(r, []string{"", "", "", "-", "--", "x"})
	if len(ch) > 0 && r.chance(30) {
		cur = t.Cmds[pick(r, ch)].Name[:1]
	}
	return parseIn{Tree: t, Words: append(words, cur)}
}

// genParseNonPosix: flag sets in which a shorthand is a word (`-bool-short`), which switches the fork's parser and
// carapace's lookup to their non-POSIX mode: no shorthand chains, `-name<d>value`, flags that exist only as
// `-short` (ShorthandOnly) or also as `-name` (NameAsShorthand)
func genParseNonPosix(r *rng, t treeSpec) parseIn {
	k := r.intn(len(t.Cmds))
	c := &t.Cmds[k]
	c.NoFlagParse = false
	c.Interspersed = !r.chance(15)
	delim := pick(r, []string{":", ":", "/", ""})
	c.Flags = []flagSpec{
		{Name: "bool-long", Short: "bool-short", Kind: "bool", Mode: 2},
		{Name: "delim", Short: "delim", Kind: "string", Mode: 1, Delim: delim},
		{Name: "count", Short: "c", Kind: "count", Mode: 2},
		{Name: "opt", Short: "o", Kind: "string"},
		{Name: "list", Short: "list", Kind: "stringSlice", Mode: 1, Nargs: pick(r, []int{0, 0, -1})},
	}
	if c.NPos == 0 {
		c.NPos = 2
	}
	c.PosAny = true
	d := delim
	if d == "" {
		d = "="
	}
	words := []string{}
	for p := k; p > 0; p = t.Cmds[p].Parent {
		words = append([]string{t.Cmds[p].Name}, words...)
	}
	for n := r.intn(3); n > 0; n-- {
		words = append(words, pick(r, [][]string{{"-bool-short"}, {"-bool-long"}, {"--bool-long"}, {"-delim" + d + "v"}, {"-delim", "v"}, {"-delim" + d}, {"-c"}, {"-count"}, {"--count"},
			{"-cc"}, {"--opt", "v"}, {"-o", "v"}, {"-ov"}, {"-o=v"}, {"-o=", "v"}, {"-c=", "x"}, {"-list", "a"}, {"-list", "a", "b"}, {"--list", "a"}, {"--delim", "v"}, {"pos"}, {"--"}, {"-x"}})...)
	}
	if r.chance(35) {
		// a flag that waits for its value, then the cursor
		words = append(words, pick(r, [][]string{{"-o"}, {"-delim"}, {"-list"}, {"--opt"}, {"-list", "a"}, {"-bool-short"}, {"-c"}})...)
		words = append(words, pick(r, []string{"", "", "x"}))
		return parseIn{Tree: t, Words: words}
	}
	words = append(words, pick(r, []string{"", "", "", "x", "-", "--", "-b", "-bool-", "-delim" + d, "-delim" + d + "p", "-delim", "-c", "-co", "-o", "-o=", "-list", "--opt=", "--b"}))
	return parseIn{Tree: t, Words: words}
}

// lenientNames: the program switched on cobra's prefix matching / case-insensitive matching of sub-command names, and the
// user typed sub-commands in a form only that option permits
func lenientNames(r *rng, in parseIn) parseIn {
	if len(in.Tree.Cmds) < 2 || len(in.Words) < 2 {
		return in
	}
	names := map[string]bool{}
	for _, c := range in.Tree.Cmds[1:] {
		names[c.Name] = true
		for _, a := range c.Aliases {
			names[a] = true
		}
	}
	prefix := r.chance(50)
	in.Tree.PrefixMatching = prefix
	in.Tree.CaseInsensitive = !prefix || r.chance(20)
	words := append([]string{}, in.Words...)
	for i := 0; i < len(words)-1; i++ {
		if !names[words[i]] || r.chance(25) {
			continue
		}
		if prefix && len(words[i]) > 1 {
			words[i] = words[i][:1+r.intn(len(words[i])-1)]
		} else if in.Tree.CaseInsensitive {
			words[i] = strings.ToUpper(words[i][:1]) + words[i][1:]
		}
	}
	in.Words = words
	return in
}

func genParse(r *rng, tier string) interface{} {
	in := genParse0(r, tier)
	if pi, ok := in.(parseIn); ok && r.chance(6) {
		return lenientNames(r, pi)
	}
	return in
}

func genParse0(r *rng, tier string) interface{} {
	t := genTree(r)
	if r.chance(10) {
		return genParseFork(r, t)
	}
	if r.chance(6) {
		return genParseNonPosix(r, t)
	}
	if r.chance(5) {
		return genParseUnknown(r, t)
	}
	if r.chance(10) {
		// a flag that sits in two mutually exclusive groups: another member of either group blocks it
		c := &t.Cmds[r.intn(len(t.Cmds))]
		c.Flags = []flagSpec{{Name: "all", Kind: "bool", Mutex: []int{0, 1}}, {Name: "name", Kind: "string", Mutex: []int{0}},
			{Name: "id", Kind: "string", Mutex: []int{1}}, {Name: "free", Kind: "bool", Short: "f"}}
		if r.chance(50) {
			c.Flags[0], c.Flags[1] = c.Flags[1], c.Flags[0]
		}
		path := []string{}
		for k := indexOfCmd(t, c.Name); k > 0; k = t.Cmds[k].Parent {
			path = append([]string{t.Cmds[k].Name}, path...)
		}
		given := pick(r, [][]string{{"--name", "x"}, {"--id", "y"}, {"--all"}, {}})
		return parseIn{Tree: t, Words: append(append(path, given...), pick(r, []string{"-", "--", "--a"}))}
	}
	if r.chance(7) {
		// a shorthand series under the cursor after an earlier flag word that took no separate value
		// (`--verbose -a<TAB>`, `-v -a<TAB>`, `--name=x -ab<TAB>`): what was given so far decides what is still offered
		k := r.intn(len(t.Cmds))
		t.Cmds[k].NoFlagParse = false
		noArg := []flagSpec{}
		for _, f := range flagsOf(t, k) {
			if (f.Kind == "bool" || f.Kind == "count" || f.Kind == "optString") && f.Short != "" && !f.Hidden && !f.Deprecated {
				noArg = append(noArg, f)
			}
		}
		if len(noArg) >= 1 {
			path := []string{}
			for p := k; p > 0; p = t.Cmds[p].Parent {
				path = append([]string{t.Cmds[p].Name}, path...)
			}
			first := pick(r, noArg)
			before := pick(r, []string{"--" + first.Name, "-" + first.Short, "-" + first.Short + first.Short})
			cur := "-" + pick(r, noArg).Short
			if r.chance(40) {
				cur += pick(r, noArg).Short
			}
			words := append(path, before)
			if r.chance(30) {
				words = append(words, "pos")
			}
			return parseIn{Tree: t, Words: append(words, cur)}
		}
	}
	if r.chance(4) {
		// a command that stops parsing flags at the first positional: a flag-like word after it is a positional
		k := r.intn(len(t.Cmds))
		t.Cmds[k].Interspersed = false
		t.Cmds[k].NoFlagParse = false
		path := []string{}
		for p := k; p > 0; p = t.Cmds[p].Parent {
			path = append([]string{t.Cmds[p].Name}, path...)
		}
		letters := []string{"b", "x"}
		for _, f := range flagsOf(t, k) {
			if f.Short != "" {
				letters = append(letters, f.Short)
			}
		}
		l := pick(r, letters)
		return parseIn{Tree: t, Words: append(append(path, "p1"), pick(r, []string{"-" + l, "-" + l + l, "-", "--", ""}))}
	}
	if r.chance(6) && len(t.Cmds) > 1 {
		// a word the parent's parser rejects (unknown flag, bad value), then a sub-command - also one that parses
		// no flags itself: the error concerns the parent and must be shown
		k := 1 + r.intn(len(t.Cmds)-1)
		if r.chance(60) {
			t.Cmds[k].NoFlagParse = true
		}
		path := []string{}
		for p := t.Cmds[k].Parent; p > 0; p = t.Cmds[p].Parent {
			path = append([]string{t.Cmds[p].Name}, path...)
		}
		bad := pick(r, [][]string{{"--nosuchflag"}, {"-Z"}, {"--nosuchflag=x"}, {"---"}})
		return parseIn{Tree: t, Words: append(append(append(path, bad...), t.Cmds[k].Name), pick(r, []string{"", "x", "-"}))}
	}
	if r.chance(8) && len(t.Cmds) > 1 {
		// visibility probe: hidden and deprecated sub-commands / flags, with and without CARAPACE_HIDDEN,
		// completing sub-command names (empty word) and flag names (`--`) of the parent
		k := 1 + r.intn(len(t.Cmds)-1)
		switch r.intn(3) {
		case 0:
			t.Cmds[k].Hidden = true
		case 1:
			t.Cmds[k].Deprecated = true
		default:
			t.Cmds[k].Hidden, t.Cmds[k].Deprecated = true, true
		}
		path := []string{}
		for p := t.Cmds[k].Parent; p > 0; p = t.Cmds[p].Parent {
			path = append([]string{t.Cmds[p].Name}, path...)
		}
		return parseIn{Tree: t, Words: append(path, pick(r, []string{"", "", "--", string(t.Cmds[k].Name[0])})), HiddenEnv: r.chance(50)}
	}
	return parseIn{Tree: t, Words: genLine(r, t), HiddenEnv: r.chance(10)}
}

// ---- op "cobrafind": which command cobra's own `Find` dispatches a line to, and the words it hands on (C01 / C07:
// the specification Spec/Cobra.lean is compared with this)
func runCobraFind(raw json.RawMessage) interface{} {
	var in parseIn
	must(json.Unmarshal(raw, &in))
	if len(in.Tree.Cmds) == 0 {
		return map[string]interface{}{"cmd": -1, "rest": []string{}}
	}
	rec := runRecord{}
	cmds := buildTree(in.Tree, &rec)
	var found *cobra.Command
	var rest []string
	perr := ""
	func() {
		defer func() {
			if p := recover(); p != nil {
				perr = fmt.Sprint(p)
			}
		}()
		found, rest, _ = cmds[0].Find(append([]string{}, in.Words...))
	}()
	idx := -1
	for i, c := range cmds {
		if c == found {
			idx = i
		}
	}
	if rest == nil {
		rest = []string{}
	}
	return map[string]interface{}{"cmd": idx, "rest": rest, "panic": perr}
}

func genCobraFind(r *rng, tier string) interface{} {
	in := genParse0(r, tier)
	if pi, ok := in.(parseIn); ok && r.chance(30) && len(pi.Words) > 0 {
		// the whole line as typed (the last word may be empty: cobra then sees an empty argument)
		return pi
	} else if ok && len(pi.Words) > 0 {
		pi.Words = pi.Words[:len(pi.Words)-1]
		return pi
	}
	return in
}

func init() {
	ops["cobrafind"] = &opDef{gen: genCobraFind, run: runCobraFind}
}

func init() {
	ops["parse"] = &opDef{gen: genParse, run: runParse}
}

// ---- op "lookuparg": pflagfork.FlagSet.LookupArg on a generated flag set (C01 stage 1)

type lookupIn struct {
	Flags []flagSpec `json:"flags"`
	Arg   string     `json:"arg"`
}

func runLookupArg(raw json.RawMessage) interface{} {
	var in lookupIn
	must(json.Unmarshal(raw, &in))
	spec := treeSpec{Cmds: []cmdSpec{{Name: "root", Parent: -1, Interspersed: true, Flags: in.Flags}}}
	rec := runRecord{}
	cmds := buildTree(spec, &rec)
	cmds[0].LocalFlags()
	found, name, prefix, args, pending := carapace.VerifLookupArg(cmds[0].Flags(), in.Arg)
	// what the program's own parser does with `arg next`: does the flag take the next word?
	run := executeLine(spec, []string{in.Arg, "NEXT"})
	return map[string]interface{}{"found": found, "name": name, "prefix": prefix, "args": args, "pending": pending,
		"series": carapace.VerifIsShorthandSeries(cmds[0].Flags(), in.Arg), "run": run}
}

func genLookupArg(r *rng, tier string) interface{} {
	t := genTree(r)
	in := lookupIn{Flags: t.Cmds[0].Flags}
	for i := range in.Flags {
		in.Flags[i].Persistent = false
		in.Flags[i].Mutex = nil
	}
	if r.chance(15) {
		// a non-POSIX flag set: the whole word after `-` is one shorthand
		pi := genParseNonPosix(r, treeSpec{Cmds: []cmdSpec{{Name: "root", Parent: -1, Interspersed: true}}})
		in.Flags = pi.Tree.Cmds[0].Flags
		d := "="
		for _, f := range in.Flags {
			if f.Delim != "" {
				d = f.Delim
			}
		}
		in.Arg = pick(r, []string{"-bool-short", "-bool-long", "--bool-long", "-delim" + d + "v", "-delim", "-delim" + d, "-delim=v", "-c", "-count", "--count", "-cc", "-o", "-ov", "-o=v", "-o=",
			"-list", "--list", "--list=a", "-", "--", "--delim", "--delim" + d + "v", "-x", "-bool-short=false", "-bool", "--opt", "--opt=v", "-opt"})
		return in
	}
	if r.chance(20) {
		// the fork's features: several words per flag, custom delimiters
		pi := genParseFork(r, treeSpec{Cmds: []cmdSpec{{Name: "root", Parent: -1, Interspersed: true}}})
		in.Flags = pi.Tree.Cmds[0].Flags
		d := ":"
		for _, f := range in.Flags {
			if f.Delim != "" {
				d = f.Delim
			}
		}
		in.Arg = pick(r, []string{"--color" + d, "--color" + d + "r", "--color=", "--color=x", "--color", "--files", "--files=", "--files=a", "-f", "-fa", "-f=a", "-yf", "-y",
			"-e" + d, "-e" + d + "3", "-e", "-e=", "-e=3", "-ye" + d + "x", "--level" + d + "2", "--pair" + d + "k", "--pair", "--colo", "--color" + d + "a" + d + "b", "--color" + d + "a=b"})
		return in
	}
	shorts := []string{}
	for _, f := range in.Flags {
		if f.Short != "" {
			shorts = append(shorts, f.Short)
		}
	}
	shorts = append(shorts, "z")
	switch r.intn(6) {
	case 0:
		if len(in.Flags) > 0 {
			f := pick(r, in.Flags)
			in.Arg = "--" + f.Name + pick(r, []string{"", "=", "=val", "=a=b", "x"})
		} else {
			in.Arg = "--unknown"
		}
	case 1:
		in.Arg = pick(r, []string{"-", "--", "", "x", "-=", "--=x"})
	default:
		n := 1 + r.intn(4)
		in.Arg = "-"
		for i := 0; i < n; i++ {
			in.Arg += pick(r, shorts)
		}
		in.Arg += pick(r, []string{"", "", "=", "=v", "val", "é"})
	}
	return in
}

func init() {
	ops["lookuparg"] = &opDef{gen: genLookupArg, run: runLookupArg}
}
