package main

import (
	"bytes"
	"time"
	"os/exec"
	"path/filepath"
	"encoding/json"
	"fmt"
	"os"
	"regexp"
	"sort"
	"strings"

	"github.com/carapace-sh/carapace"
	"github.com/carapace-sh/carapace/pkg/cache/key"
	"github.com/carapace-sh/carapace/pkg/style"
	"github.com/spf13/cobra"
)

// ---- ActionExpr: a deep embedding of the public API, shared with the Lean model (Model/Actions.lean)

type xTest struct {
	K string `json:"k"`
	N int    `json:"n,omitempty"`
	P string `json:"p,omitempty"`
}

type xEdit struct {
	K  string   `json:"k"`
	S  string   `json:"s,omitempty"`
	Xs []string `json:"xs,omitempty"`
	V  string   `json:"v,omitempty"`
}

type xExpr struct {
	K     string      `json:"k"`
	Vs    [][3]string `json:"vs,omitempty"`    // values: value, description, style
	Ps    []string    `json:"ps,omitempty"`    // plain values
	Tag   string      `json:"tag,omitempty"`   // values: tag
	M     string      `json:"m,omitempty"`     // message
	Margs []string    `json:"margs,omitempty"` // message format arguments
	Xs    []string    `json:"xs,omitempty"`    // filter / retain / multiParts dividers
	S     string      `json:"s,omitempty"`     // prefix / suffix / style / tag / usage / nospace / suppress / list divider / sep
	Opaque bool       `json:"opaque,omitempty"` // no model: only the model-free oracles apply (repeatable, equals a fresh value)
	N     int         `json:"n,omitempty"`     // shift / multiPartsN
	B     bool        `json:"b,omitempty"`     // unless
	E     *xExpr      `json:"e,omitempty"`     // inner
	Es    []*xExpr    `json:"es,omitempty"`    // batch
	T     *xTest      `json:"t,omitempty"`     // cond
	A     *xExpr      `json:"a,omitempty"`     // cond then
	Bb    *xExpr      `json:"bb,omitempty"`    // cond else
	Edits []xEdit     `json:"edits,omitempty"` // withCtx
	ID    int         `json:"id,omitempty"`    // ref
	Ctx   *xCtx       `json:"ctx,omitempty"`   // stored
}

type xCtx struct {
	Value string   `json:"value"`
	Args  []string `json:"args"`
	Parts []string `json:"parts"`
	Env   []string `json:"env"`
	Dir   string   `json:"dir"`
	CI    bool     `json:"ci"`
}

var histFix string

func histFixture() string {
	if histFix == "" {
		d, err := os.MkdirTemp("", "verif-hist")
		must(err)
		cleanups = append(cleanups, func() { os.RemoveAll(d) })
		for _, n := range []string{"a.json", "b.yaml", "c.txt"} {
			os.WriteFile(filepath.Join(d, n), []byte("x"), 0o644)
		}
		os.MkdirAll(filepath.Join(d, "sub"), 0o755)
		histFix = d
	}
	return histFix
}

var histBinDir string

// histBin: a directory with one executable, `verif-path-tool`, that is on no PATH of the process
func histBin() string {
	if histBinDir == "" {
		d, err := os.MkdirTemp("", "verif-histbin")
		must(err)
		cleanups = append(cleanups, func() { os.RemoveAll(d) })
		os.WriteFile(filepath.Join(d, "verif-path-tool"), []byte("#!/bin/sh\necho tool-ran\n"), 0o755)
		histBinDir = d
	}
	return histBinDir
}

func (c xCtx) toContext() carapace.Context {
	if c.Dir == "$HISTFIX" {
		c.Dir = histFixture()
	}
	ctx := carapace.Context{Value: c.Value, Dir: c.Dir}
	if c.Args != nil {
		ctx.Args = append([]string{}, c.Args...)
	}
	if c.Parts != nil {
		ctx.Parts = append([]string{}, c.Parts...)
	}
	if c.Env != nil {
		ctx.Env = append([]string{}, c.Env...)
		for i, e := range ctx.Env {
			if e == "PATH=$HISTBIN" {
				ctx.Env[i] = "PATH=" + histBin()
			}
		}
	}
	return ctx
}

type builder struct {
	table  []carapace.Action // shared sub-expressions (history op)
	shared *cobra.Command    // one command several Batch members register completions for (regflag / regprobe)
	sharedG *carapace.Carapace
}

func (b *builder) sharedCmd() *cobra.Command {
	if b.shared == nil {
		b.shared = &cobra.Command{Use: "shared", Run: func(*cobra.Command, []string) {}}
		for i := 0; i < 24; i++ {
			b.shared.Flags().String("f"+itoa(i), "", "")
		}
		b.sharedG = carapace.Gen(b.shared)
	}
	return b.shared
}

func (b *builder) build(x *xExpr) carapace.Action {
	switch x.K {
	case "values":
		flat := make([]string, 0, len(x.Vs)*3)
		for _, v := range x.Vs {
			flat = append(flat, v[0], v[1], v[2])
		}
		a := carapace.ActionStyledValuesDescribed(flat...)
		if x.Tag != "" {
			a = a.Tag(x.Tag)
		}
		return a
	case "plain":
		return carapace.ActionValues(x.Ps...)
	case "message":
		if len(x.Margs) > 0 {
			args := make([]interface{}, len(x.Margs))
			for i, a := range x.Margs {
				args[i] = a
			}
			return carapace.ActionMessage(x.M, args...)
		}
		return carapace.ActionMessage(x.M)
	case "gen":
		// a member that registers completions in the global registry while it runs
		return carapace.ActionCallback(func(c carapace.Context) carapace.Action {
			cmd := &cobra.Command{Use: "dyn", Run: func(*cobra.Command, []string) {}}
			cmd.Flags().String("flag", "", "")
			carapace.Gen(cmd).FlagCompletion(carapace.ActionMap{"flag": carapace.ActionValues("f1")})
			carapace.Gen(cmd).PositionalCompletion(carapace.ActionValues("p1"))
			return carapace.ActionValues("gen")
		})
	case "cobrafiles":
		// a cobra completion function that hands out the same slice on every call (cobra.FixedCompletions does)
		persistent := []string{"json", "yaml"}
		return carapace.ActionCobra(func(cmd *cobra.Command, args []string, toComplete string) ([]string, cobra.ShellCompDirective) {
			return persistent, cobra.ShellCompDirectiveFilterFileExt
		})
	case "execute":
		// a member that runs an embedded command of its own through ActionExecute
		id := itoa(x.N)
		cmd := &cobra.Command{Use: "emb" + id, Run: func(*cobra.Command, []string) {}}
		carapace.Gen(cmd).PositionalAnyCompletion(carapace.ActionValues("ex"+id+"a", "ex"+id+"b"))
		return carapace.ActionCallback(func(c carapace.Context) carapace.Action {
			c.Args, c.Value = []string{"x"}, ""
			return carapace.ActionExecute(cmd).Invoke(c).ToA()
		})
	case "cached":
		// a member whose callback sits behind the file cache (one call site, the key is the member's number)
		id := itoa(x.N)
		if x.S == "meta" {
			// the cached result carries a no-space set, a usage text, descriptions, styles and tags: a hit must hand all of it back
			return carapace.ActionCallback(func(c carapace.Context) carapace.Action {
				return carapace.ActionStyledValuesDescribed("cm"+id+"/", "first", "red", "cm"+id+"b", "second", "blue").Tag("cached tag").NoSpace('/').Usage("cached usage " + id)
			}).Cache(time.Minute, key.String("meta member", id))
		}
		return carapace.ActionCallback(func(c carapace.Context) carapace.Action {
			return carapace.ActionValues("ca" + id)
		}).Cache(time.Minute, key.String("member", id))
	case "execpath":
		// an external command looked up by name: which file runs depends on the PATH of the process alone (exec.Command resolves
		// the name when the command is built) - never on what an earlier invocation under another Context did
		return carapace.ActionExecCommand("verif-path-tool")(func(output []byte) carapace.Action {
			return carapace.ActionValues(strings.TrimSpace(string(output)))
		})
	case "timedEcho":
		// answers `<value>-done`, slowly when the value starts with `slow`; under a Timeout that the slow answers miss
		return carapace.ActionCallback(func(c carapace.Context) carapace.Action {
			if strings.HasPrefix(c.Value, "slow") {
				time.Sleep(250 * time.Millisecond)
			}
			return carapace.ActionValues(c.Value + "-done")
		}).Timeout(100*time.Millisecond, carapace.ActionValues("alt"))
	case "lsfiles":
		// files styled by the LS_COLORS of the Context the action runs under; a callback may set the variable first
		ls := x.S
		return carapace.ActionCallback(func(c carapace.Context) carapace.Action {
			if ls != "" {
				c.Setenv("LS_COLORS", ls)
			}
			return carapace.ActionFiles().Invoke(c).ToA()
		})
	case "cobravalues":
		persistent := []string{"one\tfirst", "two"}
		return carapace.ActionCobra(func(cmd *cobra.Command, args []string, toComplete string) ([]string, cobra.ShellCompDirective) {
			return persistent, cobra.ShellCompDirectiveNoSpace
		})
	case "regflag":
		// a member that registers the completion of flag f<n> of the shared command while it runs
		b.sharedCmd()
		n := x.N
		return carapace.ActionCallback(func(c carapace.Context) carapace.Action {
			b.sharedG.FlagCompletion(carapace.ActionMap{"f" + itoa(n): carapace.ActionValues("v" + itoa(n))})
			return carapace.ActionValues("reg" + itoa(n))
		})
	case "regprobe":
		// which of the first n flags of the shared command have their completion registered
		cmd := b.sharedCmd()
		n := x.N
		return carapace.ActionCallback(func(c carapace.Context) carapace.Action {
			found := []string{}
			for i := 0; i < n; i++ {
				a, ctx := carapace.VerifTraverse(cmd, []string{"--f" + itoa(i), ""})
				_, vals := carapace.VerifInvoked(a.Invoke(ctx))
				for _, v := range vals {
					if v.Value == "v"+itoa(i) {
						found = append(found, v.Value)
					}
				}
			}
			return carapace.ActionValues(found...)
		})
	case "echo":
		return carapace.ActionCallback(func(c carapace.Context) carapace.Action {
			return carapace.ActionValues(
				"v="+c.Value,
				"a="+strings.Join(c.Args, ","),
				"p="+strings.Join(c.Parts, ","),
				"e="+c.Getenv("VERIF_X"),
				"d="+c.Dir,
			)
		})
	case "filter":
		return b.build(x.E).Filter(x.Xs...)
	case "filterArgs":
		return b.build(x.E).FilterArgs()
	case "filterParts":
		return b.build(x.E).FilterParts()
	case "retain":
		return b.build(x.E).Retain(x.Xs...)
	case "pfx":
		return b.build(x.E).Prefix(x.S)
	case "sfx":
		return b.build(x.E).Suffix(x.S)
	case "style":
		return b.build(x.E).Style(x.S)
	case "multiPartsP":
		// paths with placeholders (`{user}`); a placeholder is completed by a callback, whose values can coincide with a static sibling segment
		vals := x.Ps
		return carapace.ActionValuesDescribed(vals...).MultiPartsP("/", "{.*}", func(placeholder string, matches map[string]string) carapace.Action {
			return carapace.ActionValuesDescribed("root", "from placeholder "+placeholder, "guest", "a guest", "x", "x of "+placeholder).Usage("usage of " + placeholder)
		})
	case "styleR":
		// style by reference: the referenced string gets its final value (the user's style configuration is loaded)
		// after the Action was built and before it is invoked; the style at invocation time counts
		cur := "bg-red bold"
		a := b.build(x.E).StyleR(&cur)
		cur = x.S
		return a
	case "tag":
		return b.build(x.E).Tag(x.S)
	case "usage":
		return b.build(x.E).Usage(x.S)
	case "nospace":
		return b.build(x.E).NoSpace([]rune(x.S)...)
	case "suppress":
		return b.build(x.E).Suppress(regexp.QuoteMeta(x.S))
	case "suppressN":
		// several expressions in one call (none, or quoted literals, the first possibly with an inline flag)
		ps := []string{}
		for _, p := range x.Xs {
			if strings.HasPrefix(p, "(?i)") {
				ps = append(ps, "(?i)"+regexp.QuoteMeta(p[4:]))
			} else {
				ps = append(ps, regexp.QuoteMeta(p))
			}
		}
		return b.build(x.E).Suppress(ps...)
	case "unless":
		return b.build(x.E).Unless(x.B)
	case "tagF":
		// a function that looks at the value: its first character decides
		return b.build(x.E).TagF(func(s string) string {
			if s == "" {
				return "empty"
			}
			return "t-" + string([]rune(s)[:1])
		})
	case "styleF":
		return b.build(x.E).StyleF(func(s string, sc style.Context) string {
			if strings.HasPrefix(s, "a") {
				return "red"
			}
			return "blue"
		})
	case "unlessF":
		t := *x.T
		return b.build(x.E).UnlessF(func(c carapace.Context) bool {
			switch t.K {
			case "partsLen":
				return len(c.Parts) == t.N
			case "argsLen":
				return len(c.Args) == t.N
			case "valuePrefix":
				return strings.HasPrefix(c.Value, t.P)
			}
			return true
		})
	case "shift":
		return b.build(x.E).Shift(x.N)
	case "list":
		return b.build(x.E).List(x.S)
	case "uniqueList":
		return b.build(x.E).UniqueList(x.S)
	case "multiParts":
		return b.build(x.E).MultiParts(x.Xs...)
	case "multiPartsN":
		inner := b.build(x.E)
		return carapace.ActionMultiPartsN(x.S, x.N, func(c carapace.Context) carapace.Action { return inner })
	case "batch":
		as := make([]carapace.Action, len(x.Es))
		for i, e := range x.Es {
			as[i] = b.build(e)
		}
		return carapace.Batch(as...).ToA()
	case "cond":
		a1, a2 := b.build(x.A), b.build(x.Bb)
		t := *x.T
		return carapace.ActionCallback(func(c carapace.Context) carapace.Action {
			ok := false
			switch t.K {
			case "partsLen":
				ok = len(c.Parts) == t.N
			case "argsLen":
				ok = len(c.Args) == t.N
			case "valuePrefix":
				ok = strings.HasPrefix(c.Value, t.P)
			case "always":
				ok = true
			}
			if ok {
				return a1
			}
			return a2
		})
	case "withCtx":
		inner := b.build(x.E)
		edits := x.Edits
		return carapace.ActionCallback(func(c carapace.Context) carapace.Action {
			for _, e := range edits {
				switch e.K {
				case "setValue":
					c.Value = e.S
				case "setArgs":
					c.Args = append([]string{}, e.Xs...)
				case "setParts":
					c.Parts = append([]string{}, e.Xs...)
				case "setenv":
					c.Setenv(e.S, e.V)
				case "setDir":
					c.Dir = e.S
				}
			}
			return inner.Invoke(c).ToA()
		})
	case "ref":
		return b.table[x.ID]
	case "stored":
		return b.build(x.E).Invoke(x.Ctx.toContext()).ToA()
	case "import":
		// the exported document of an invocation, handed to ActionImport (one Action value, invoked many times)
		doc, err := carapace.VerifExportJSON(b.build(x.E).Invoke(x.Ctx.toContext()))
		must(err)
		return carapace.ActionImport(doc)
	}
	panic("unknown expr kind " + x.K)
}

type xResult struct {
	Messages []string                 `json:"messages"`
	Nospace  string                   `json:"nospace"`
	Usage    string                   `json:"usage"`
	Values   []carapace.VerifRawValue `json:"values"`
	Panic    string                   `json:"panic,omitempty"`
}

func observe(ia carapace.InvokedAction) xResult {
	meta, values := carapace.VerifInvoked(ia)
	r := xResult{Usage: meta.Usage, Values: append([]carapace.VerifRawValue{}, values...)}
	r.Messages = meta.Messages.Get()
	nb, _ := json.Marshal(meta.Nospace)
	json.Unmarshal(nb, &r.Nospace)
	if r.Values == nil {
		r.Values = []carapace.VerifRawValue{}
	}
	return r
}

func invokeSafe(a carapace.Action, c carapace.Context) (res xResult) {
	defer func() {
		if p := recover(); p != nil {
			res = xResult{Panic: fmt.Sprint(p), Values: []carapace.VerifRawValue{}}
		}
	}()
	return observe(a.Invoke(c))
}

// ---- op "invoke": one expression, one Context

type invokeIn struct {
	Expr *xExpr `json:"expr"`
	Ctx  xCtx   `json:"ctx"`
}

func runInvoke(raw json.RawMessage) interface{} {
	var in invokeIn
	must(json.Unmarshal(raw, &in))
	carapace.VerifSetMatch(in.Ctx.CI)
	defer carapace.VerifSetMatch(false)
	b := &builder{}
	a := b.build(in.Expr)
	res := invokeSafe(a, in.Ctx.toContext())
	out := map[string]interface{}{"messages": res.Messages, "nospace": res.Nospace, "usage": res.Usage, "values": res.Values}
	if res.Panic != "" {
		out["panic"] = res.Panic
	}
	// for the frame oracles: the real result of the immediate inner expression with the same Context
	if in.Expr.K == "batch" {
		// what the members yield when invoked one after the other with the same Context
		ms := []xResult{}
		for _, e := range in.Expr.Es {
			ms = append(ms, invokeSafe((&builder{}).build(e), in.Ctx.toContext()))
		}
		out["members"] = ms
	}
	if in.Expr.E != nil && in.Expr.K != "stored" && in.Expr.K != "import" && in.Expr.K != "suppressN" {
		out["inner"] = invokeSafe((&builder{}).build(in.Expr.E), in.Ctx.toContext())
		if in.Expr.K == "pfx" {
			// the Prefix law: p+x is completed as p + completion of x. x is computed here from the typed
			// word alone (ASCII case folding when matching is case-insensitive)
			p, v := in.Expr.S, in.Ctx.Value
			if len(v) >= len(p) && (v[:len(p)] == p || (in.Ctx.CI && strings.EqualFold(v[:len(p)], p))) {
				c2 := in.Ctx
				c2.Value = v[len(p):]
				out["pfxInner"] = invokeSafe((&builder{}).build(in.Expr.E), c2.toContext())
			}
		}
	}
	return out
}

// ---- op "history": shared Go values invoked repeatedly and interleaved (C08)

type historyStep struct {
	E     int  `json:"e"`
	Ctx   xCtx `json:"ctx"`
	Pause int  `json:"pause,omitempty"` // milliseconds to wait before this step (timed expressions)
}

type historyIn struct {
	Table []*xExpr      `json:"table"`
	Steps []historyStep `json:"steps"`
	CI    bool          `json:"ci"`
}

// runHistory: timed expressions are re-run when the machine stalled (a quick answer that missed its 100 ms budget)
func runHistory(raw json.RawMessage) interface{} {
	var in historyIn
	must(json.Unmarshal(raw, &in))
	timed := false
	for _, x := range in.Table {
		if x.K == "timedEcho" {
			timed = true
		}
	}
	var out interface{}
	for attempt := 0; attempt < 4; attempt++ {
		out = runHistoryOnce(raw)
		if !timed {
			break
		}
		stalled := false
		m := out.(map[string]interface{})
		for _, key := range []string{"results", "fresh"} {
			for i, r := range m[key].([]xResult) {
				quick := !strings.HasPrefix(in.Steps[i].Ctx.Value, "slow")
				if quick && len(r.Values) == 1 && r.Values[0].Value == "alt" {
					stalled = true
				}
			}
		}
		if !stalled {
			break
		}
	}
	return out
}

func hasKind(x *xExpr, k string) bool {
	if x == nil {
		return false
	}
	if x.K == k {
		return true
	}
	for _, y := range append(append([]*xExpr{x.E, x.A, x.Bb}, x.Es...)) {
		if hasKind(y, k) {
			return true
		}
	}
	return false
}

func runHistoryOnce(raw json.RawMessage) interface{} {
	var in historyIn
	must(json.Unmarshal(raw, &in))
	for _, x := range in.Table {
		if hasKind(x, "cached") {
			dir, err := os.MkdirTemp("", "verif-bcache")
			must(err)
			defer os.RemoveAll(dir)
			old := os.Getenv("XDG_CACHE_HOME")
			os.Setenv("XDG_CACHE_HOME", dir)
			defer os.Setenv("XDG_CACHE_HOME", old)
			break
		}
	}
	carapace.VerifSetMatch(in.CI)
	defer carapace.VerifSetMatch(false)
	b := &builder{}
	for _, x := range in.Table {
		b.table = append(b.table, b.build(x))
	}
	results := make([]xResult, 0, len(in.Steps))
	fresh := make([]xResult, 0, len(in.Steps))
	ctxChanged := []int{}
	// expressions whose result depends on state the library may keep per process (the file system, styles):
	// the fresh value is computed by a fresh process
	freshProcess := false
	for _, x := range in.Table {
		if x.K == "lsfiles" {
			freshProcess = true
		}
	}
	for i, s := range in.Steps {
		if s.Pause > 0 {
			time.Sleep(time.Duration(s.Pause) * time.Millisecond)
		}
		c := s.Ctx.toContext()
		before := fmt.Sprintf("%q|%q|%q|%q|%q", c.Value, c.Args, c.Parts, c.Env, c.Dir)
		results = append(results, invokeSafe(b.table[s.E], c))
		if after := fmt.Sprintf("%q|%q|%q|%q|%q", c.Value, c.Args, c.Parts, c.Env, c.Dir); after != before {
			ctxChanged = append(ctxChanged, i)
		}
		// the same expression built from scratch (fresh Go values), same Context: what a value would yield
		fb := &builder{}
		for _, x := range in.Table {
			fb.table = append(fb.table, fb.build(x))
		}
		if freshProcess {
			fresh = append(fresh, historyInChild(in, i))
			continue
		}
		fresh = append(fresh, invokeSafe(fb.table[s.E], s.Ctx.toContext()))
	}
	out := map[string]interface{}{"results": results, "fresh": fresh, "ctxChanged": ctxChanged}
	// a Batch of members without a model (embedded commands, cached callbacks): its candidates are those the members
	// yield when invoked one after the other
	for i, s := range in.Steps {
		top := in.Table[s.E]
		if top.K == "batch" && top.Opaque && results[i].Panic == "" {
			want := map[string]bool{}
			for _, m := range top.Es {
				fb := &builder{}
				for _, x := range in.Table {
					fb.table = append(fb.table, fb.build(x))
				}
				for _, v := range invokeSafe(fb.build(m), s.Ctx.toContext()).Values {
					want[v.Value] = true
				}
			}
			got := map[string]bool{}
			for _, v := range results[i].Values {
				got[v.Value] = true
			}
			if fmt.Sprint(sortedKeys(want)) != fmt.Sprint(sortedKeys(got)) {
				out["batchUnion"] = fmt.Sprintf("step %d: batch yields %v, the members one after the other %v", i, sortedKeys(got), sortedKeys(want))
			}
		}
	}
	return out
}

func sortedKeys(m map[string]bool) []string {
	out := []string{}
	for k := range m {
		out = append(out, k)
	}
	sort.Strings(out)
	return out
}

// historyInChild: step i of the history alone, in a new process
func historyInChild(in historyIn, i int) xResult {
	one := in
	one.Steps = []historyStep{in.Steps[i]}
	js, _ := json.Marshal(one)
	exe, err := os.Executable()
	must(err)
	cmd := exec.Command(exe, "history-child")
	cmd.Stdin = bytes.NewReader(js)
	out, err := cmd.Output()
	var res xResult
	if err != nil || json.Unmarshal(out, &res) != nil {
		return xResult{Panic: "history-child failed: " + fmt.Sprint(err)}
	}
	return res
}

func historyChild(args []string) {
	var in historyIn
	must(json.NewDecoder(os.Stdin).Decode(&in))
	carapace.VerifSetMatch(in.CI)
	b := &builder{}
	for _, x := range in.Table {
		b.table = append(b.table, b.build(x))
	}
	s := in.Steps[0]
	js, _ := json.Marshal(invokeSafe(b.table[s.E], s.Ctx.toContext()))
	os.Stdout.Write(js)
	for _, f := range cleanups {
		f()
	}
}

func init() {
	subcommands["history-child"] = historyChild
}

// ---- op "repeat": byte-for-byte determinism of the formatted output (C10)

type repeatIn struct {
	Expr   *xExpr `json:"expr"`
	Shared *xExpr `json:"shared,omitempty"` // built once per repetition; `ref` 0 inside Expr names it
	Ctx    xCtx   `json:"ctx"`
	Shell  string `json:"shell"`
	N      int    `json:"n"`
}

func runRepeat(raw json.RawMessage) interface{} {
	var in repeatIn
	must(json.Unmarshal(raw, &in))
	carapace.VerifSetMatch(in.Ctx.CI)
	defer carapace.VerifSetMatch(false)
	os.Setenv("CARAPACE_COMPLINE", "cmd "+in.Ctx.Value)
	for _, k := range []string{"CARAPACE_UNFILTERED", "NO_COLOR", "CARAPACE_NOSPACE", "COMP_WORDBREAKS"} {
		os.Unsetenv(k)
	}
	carapace.VerifBashState("", "")
	outs := map[string]int{}
	first := ""
	for i := 0; i < in.N; i++ {
		b := &builder{}
		if in.Shared != nil {
			b.table = []carapace.Action{b.build(in.Shared)}
		}
		a := b.build(in.Expr)
		out := func() (s string) {
			defer func() {
				if p := recover(); p != nil {
					s = "PANIC: " + fmt.Sprint(p)
				}
			}()
			return carapace.VerifValue(a.Invoke(in.Ctx.toContext()), in.Shell, in.Ctx.Value)
		}()
		if i == 0 {
			first = out
		}
		outs[out]++
	}
	keys := make([]string, 0, len(outs))
	for k := range outs {
		keys = append(keys, k)
	}
	sort.Strings(keys)
	if len(keys) > 4 {
		keys = keys[:4]
	}
	return map[string]interface{}{"distinct": len(outs), "first": first, "outputs": keys}
}

// ---------------------------------------------------------------- generators

var algWords = []string{"a", "b", "ab", "abc", "a/b", "a/b/c", "a/c", "b/c", "x=1", "x=2", "y=", "k:v", "k:w", "é", "éa", "A", "Ab", "one", "two", "one,two", "", "dir/", "dir/sub/", ".", "a.b", "a.c"}
var algDividers = []string{"/", "=", ",", ":", ".", "::", "ab"}

func genWord(r *rng) string {
	if r.chance(70) {
		return pick(r, algWords)
	}
	return genText(r, 5, 10)
}

func genLeaf(r *rng) *xExpr {
	switch r.intn(10) {
	case 0:
		if r.chance(25) {
			// text that is no format string although it contains a percent sign
			return &xExpr{K: "message", M: pick(r, []string{"50% done", "invalid URL escape \"%zz\"", "100%", "%d items", "a %s b %v"})}
		}
		return &xExpr{K: "message", M: "msg " + genText(r, 4, 5)}
	case 1:
		return &xExpr{K: "echo"}
	case 2:
		n := r.intn(4)
		x := &xExpr{K: "plain", Ps: []string{}}
		for i := 0; i < n; i++ {
			x.Ps = append(x.Ps, genWord(r))
		}
		return x
	default:
		n := 1 + r.intn(5)
		x := &xExpr{K: "values", Vs: [][3]string{}, Tag: pick(r, []string{"", "", "t1", "files"})}
		for i := 0; i < n; i++ {
			w := genWord(r)
			if w == "" {
				w = "w"
			}
			x.Vs = append(x.Vs, [3]string{w, pick(r, []string{"", "d1", "desc " + w, "other"}), pick(r, []string{"", "red", "blue"})})
		}
		return x
	}
}

func genStrs(r *rng, n int) []string {
	xs := []string{}
	k := r.intn(n + 1)
	for i := 0; i < k; i++ {
		xs = append(xs, genWord(r))
	}
	return xs
}

func genExpr(r *rng, depth int) *xExpr {
	if depth <= 0 || r.chance(25) {
		return genLeaf(r)
	}
	inner := func() *xExpr { return genExpr(r, depth-1) }
	switch r.intn(24) {
	case 0:
		return &xExpr{K: "filter", Xs: genStrs(r, 3), E: inner()}
	case 1:
		return &xExpr{K: "filterArgs", E: inner()}
	case 2:
		return &xExpr{K: "filterParts", E: inner()}
	case 3:
		return &xExpr{K: "retain", Xs: genStrs(r, 3), E: inner()}
	case 4, 5:
		return &xExpr{K: "pfx", S: pick(r, []string{"", "a", "p-", "x=", "é", "A", "ab"}), E: inner()}
	case 6:
		return &xExpr{K: "sfx", S: pick(r, []string{"", "/", "=", "s"}), E: inner()}
	case 7:
		if r.chance(30) {
			return &xExpr{K: "styleR", S: pick(r, []string{"", "red", "bold", "bg-red bold"}), E: inner()}
		}
		return &xExpr{K: "style", S: pick(r, []string{"", "red", "bold"}), E: inner()}
	case 8:
		return &xExpr{K: "tag", S: pick(r, []string{"", "t2", "files"}), E: inner()}
	case 9:
		if r.chance(40) {
			// two levels: the outer usage wins over the inner one (and over a member's in a Batch)
			in := &xExpr{K: "usage", S: pick(r, []string{"inner usage", ""}), E: inner()}
			mid := pick(r, []*xExpr{in, {K: "sfx", S: "", E: in}, {K: "batch", Es: []*xExpr{in, {K: "usage", S: "member usage", E: &xExpr{K: "plain", Ps: []string{"m"}}}}}})
			return &xExpr{K: "usage", S: pick(r, []string{"outer usage", "outer usage", ""}), E: mid}
		}
		return &xExpr{K: "usage", S: pick(r, []string{"", "usage one", "u2"}), E: inner()}
	case 10:
		if r.chance(35) {
			// no-space sets that overlap partly: declared one after the other, or by the members of a Batch
			a, b := pick(r, []string{"/", "=", "/=", ":"}), pick(r, []string{"/=", "=:", "/:", "/=:"})
			in := &xExpr{K: "nospace", S: a, E: inner()}
			if r.chance(40) {
				in = &xExpr{K: "batch", Es: []*xExpr{in, {K: "nospace", S: b, E: &xExpr{K: "plain", Ps: []string{"k=", "d/"}}}}}
			}
			return &xExpr{K: "nospace", S: b, E: in}
		}
		return &xExpr{K: "nospace", S: pick(r, []string{"", "/", "/=", "*", "é"}), E: inner()}
	case 11:
		if r.chance(50) {
			// each expression is matched on its own: an empty list suppresses nothing, a flag of one expression does not reach the next
			in := &xExpr{K: "batch", Es: []*xExpr{inner(), {K: "message", M: "msg lower"}, {K: "message", M: "OTHER upper"}}}
			return &xExpr{K: "suppressN", Xs: pick(r, [][]string{{}, {"(?i)zzz", "MSG"}, {"(?i)qqq", "other"}, {"zzz", "msg"}, {"msg", "OTHER"}, {"(?i)zzz"}}), E: in}
		}
		return &xExpr{K: "suppress", S: pick(r, []string{"msg", "zzz", "(", "msg a"}), E: inner()}
	case 12:
		switch r.intn(4) {
		case 0:
			return &xExpr{K: "tagF", E: inner()}
		case 1:
			return &xExpr{K: "styleF", E: inner()}
		case 2:
			return &xExpr{K: "unlessF", T: &xTest{K: pick(r, []string{"partsLen", "argsLen", "valuePrefix", "always"}), N: r.intn(3), P: pick(r, []string{"", "a", "x"})}, E: inner()}
		}
		return &xExpr{K: "unless", B: r.chance(40), E: inner()}
	case 13:
		return &xExpr{K: "shift", N: r.intn(4) - 1, E: inner()}
	case 14:
		return &xExpr{K: "list", S: pick(r, []string{",", ":", "::"}), E: inner()}
	case 15:
		return &xExpr{K: "uniqueList", S: pick(r, []string{",", ":", "::"}), E: inner()}
	case 16, 17:
		nd := 1 + r.intn(2)
		ds := []string{}
		for i := 0; i < nd; i++ {
			ds = append(ds, pick(r, algDividers))
		}
		return &xExpr{K: "multiParts", Xs: ds, E: inner()}
	case 18:
		return &xExpr{K: "multiPartsN", S: pick(r, []string{"=", ",", "::", "", "->", "、", "=→", "::→", "=>", ", "}), N: r.intn(5) - 1, E: inner()}
	case 19, 20:
		if r.chance(20) {
			// members that yield the same inserted value with different display texts: the later member wins, once
			return &xExpr{K: "batch", Es: []*xExpr{
				{K: "plain", Ps: []string{"origin/main", "origin/dev", "zz"}},
				{K: "withCtx", Edits: []xEdit{{K: "setValue", S: ""}}, E: &xExpr{K: "pfx", S: "origin/", E: &xExpr{K: "plain", Ps: []string{"main", "x"}}}},
				{K: "plain", Ps: []string{"aa"}},
			}}
		}
		n := r.intn(4)
		x := &xExpr{K: "batch", Es: []*xExpr{}}
		for i := 0; i < n; i++ {
			x.Es = append(x.Es, inner())
		}
		return x
	case 21:
		return &xExpr{K: "cond", T: &xTest{K: pick(r, []string{"partsLen", "argsLen", "valuePrefix", "always"}), N: r.intn(3), P: pick(r, []string{"", "a", "x"})}, A: inner(), Bb: inner()}
	default:
		edits := []xEdit{}
		for i := 0; i < 1+r.intn(2); i++ {
			switch r.intn(5) {
			case 0:
				edits = append(edits, xEdit{K: "setValue", S: genWord(r)})
			case 1:
				edits = append(edits, xEdit{K: "setArgs", Xs: genStrs(r, 3)})
			case 2:
				edits = append(edits, xEdit{K: "setParts", Xs: genStrs(r, 3)})
			case 3:
				edits = append(edits, xEdit{K: "setenv", S: "VERIF_X", V: pick(r, []string{"1", "2", ""})})
			default:
				edits = append(edits, xEdit{K: "setDir", S: pick(r, []string{"/d1", "/d2"})})
			}
		}
		return &xExpr{K: "withCtx", Edits: edits, E: inner()}
	}
}

func genCtx(r *rng) xCtx {
	c := xCtx{Args: genStrs(r, 3), Parts: genStrs(r, 2), Env: []string{}, Dir: pick(r, []string{"", "/tmp", "/d0"})}
	switch r.intn(4) {
	case 0:
		c.Value = ""
	case 1:
		w := []rune(pick(r, algWords))
		c.Value = string(w[:r.intn(len(w)+1)])
	default:
		c.Value = genWord(r)
	}
	if r.chance(30) {
		c.Env = append(c.Env, "VERIF_X=env0")
	}
	c.CI = r.chance(10)
	return c
}

// values rich in dividers: prefixes of each other, trailing / leading / repeated dividers, empty segments
func genMultiPartsCase(r *rng) invokeIn {
	div := pick(r, []string{"/", "=", ",", ":", "::", "ab", ".", "->", "→", "::→", "é", "·", "日"})
	ds := []string{div}
	if r.chance(25) {
		ds = append(ds, pick(r, []string{"=", ",", ":", "/"}))
	}
	seg := func() string { return pick(r, []string{"a", "b", "c", "ab", "", "x", "é", "a-", "-", ":"}) }
	n := 1 + r.intn(5)
	x := &xExpr{K: "values", Vs: [][3]string{}, Tag: pick(r, []string{"", "t1"})}
	for i := 0; i < n; i++ {
		k := 1 + r.intn(4)
		parts := []string{}
		for j := 0; j < k; j++ {
			parts = append(parts, seg())
		}
		v := strings.Join(parts, pick(r, ds))
		if r.chance(25) {
			v += div
		}
		if v == "" {
			v = "v"
		}
		x.Vs = append(x.Vs, [3]string{v, pick(r, []string{"", "d1", "desc " + v}), pick(r, []string{"", "red"})})
	}
	c := genCtx(r)
	c.CI = false
	switch r.intn(4) {
	case 0:
		c.Value = ""
	case 1, 2:
		v := []rune(pick(r, x.Vs)[0])
		c.Value = string(v[:r.intn(len(v)+1)])
	default:
		c.Value = pick(r, x.Vs)[0]
	}
	return invokeIn{Expr: &xExpr{K: "multiParts", Xs: ds, E: x}, Ctx: c}
}

func swapCase(s string) string {
	b := []byte(s)
	for i, c := range b {
		if c >= 'a' && c <= 'z' {
			b[i] = c - 32
		} else if c >= 'A' && c <= 'Z' {
			b[i] = c + 32
		}
	}
	return string(b)
}

func genInvoke(r *rng, tier string) interface{} {
	if r.chance(15) {
		return genMultiPartsCase(r)
	}
	if r.intn(60) == 0 {
		// a large Batch: every member's values must arrive
		n := 60 + r.intn(150)
		x := &xExpr{K: "batch", Es: []*xExpr{}}
		for i := 0; i < n; i++ {
			x.Es = append(x.Es, &xExpr{K: "plain", Ps: []string{"m" + itoa(i)}})
		}
		c := genCtx(r)
		c.Value = ""
		return invokeIn{Expr: x, Ctx: c}
	}
	if r.chance(4) {
		// case-insensitive matching where lower-casing changes the length of the text (İ -> i + combining dot), or
		// touches non-ASCII capitals; also a typed word as long as a candidate, or longer
		x := &xExpr{K: "plain", Ps: []string{"İzmir/Konak", "İzmir/Bornova", "Éa/b", "README", "a", "act", "action"}}
		var e *xExpr = x
		if r.chance(60) {
			e = &xExpr{K: "multiParts", Xs: []string{"/"}, E: x}
		}
		c := xCtx{CI: true, Value: pick(r, []string{"i", "izmir/", "izmir/k", "İ", "é", "éa/", "readme", "README", "ACTI", "ACTIONS", "a"})}
		return invokeIn{Expr: e, Ctx: c}
	}
	if r.chance(6) {
		// case-insensitive matching with a typed word that differs from a prefix only in case
		p := pick(r, []string{"file://", "ab", "x=", "Pre"})
		inner := genExpr(r, 2)
		c := genCtx(r)
		c.CI = true
		c.Value = swapCase(p) + pick(r, []string{"", "a", "one,"})
		return invokeIn{Expr: &xExpr{K: "pfx", S: p, E: inner}, Ctx: c}
	}
	if r.intn(40) == 0 {
		// the empty divider only at top level (a panic inside a Batch goroutine cannot be recovered)
		return invokeIn{Expr: &xExpr{K: pick(r, []string{"multiParts", "list"}), Xs: []string{""}, S: "", E: genLeaf(r)}, Ctx: genCtx(r)}
	}
	return invokeIn{Expr: genExpr(r, 1+r.intn(4)), Ctx: genCtx(r)}
}

func genHistory(r *rng, tier string) interface{} {
	in := historyIn{CI: false}
	n := 1 + r.intn(3)
	for i := 0; i < n; i++ {
		x := genExpr(r, 1+r.intn(3))
		// derived expressions reuse earlier Go values
		if i > 0 && r.chance(60) {
			ref := &xExpr{K: "ref", ID: r.intn(i)}
			switch r.intn(5) {
			case 0:
				x = &xExpr{K: "pfx", S: pick(r, []string{"", "a", "p-"}), E: ref}
			case 1:
				x = &xExpr{K: "batch", Es: []*xExpr{ref, x}}
			case 2:
				x = &xExpr{K: "nospace", S: "/", E: ref}
			case 3:
				x = &xExpr{K: "multiParts", Xs: []string{"/"}, E: ref}
			default:
				x = &xExpr{K: "usage", S: "u" + itoa(i), E: ref}
			}
		}
		if r.chance(8) {
			c0 := genCtx(r)
			c0.CI = false
			x = &xExpr{K: pick(r, []string{"pfx", "sfx", "style", "filter"}), S: "s", Xs: []string{"a"}, E: &xExpr{K: "stored", E: genLeaf(r), Ctx: &c0}}
		}
		if r.chance(5) {
			x = &xExpr{K: "message", M: "%v", Margs: []string{pick(r, []string{"50%d", "plain", "100%"})}}
		}
		if r.chance(7) {
			c0 := genCtx(r)
			c0.CI = false
			imp := &xExpr{K: "import", E: genLeaf(r), Ctx: &c0}
			x = &xExpr{K: pick(r, []string{"pfx", "sfx", "style", "tag", "suppress"}), S: "s", Xs: []string{"a"}, E: imp}
			if r.chance(30) {
				x = imp
			}
		}
		in.Table = append(in.Table, x)
	}
	ctxs := []xCtx{genCtx(r), genCtx(r)}
	for i := range ctxs {
		ctxs[i].CI = false
	}
	if r.chance(15) {
		// Context locality probe: a member edits its Context, its siblings and later steps must not see it
		edits := []xEdit{{K: "setenv", S: "VERIF_X", V: "inner"}}
		if r.chance(50) {
			edits = append(edits, xEdit{K: "setArgs", Xs: []string{"edited"}}, xEdit{K: "setValue", S: "edited"})
		}
		probe := &xExpr{K: "batch", Es: []*xExpr{{K: "withCtx", Edits: edits, E: &xExpr{K: "echo"}}, {K: "echo"}}}
		if r.chance(50) {
			probe = &xExpr{K: "batch", Es: []*xExpr{{K: "echo"}, {K: "withCtx", Edits: edits, E: &xExpr{K: "echo"}}, {K: "sfx", S: "2", E: &xExpr{K: "echo"}}}}
		}
		in.Table = append(in.Table, probe)
		n = len(in.Table)
		for i := range ctxs {
			ctxs[i].Env = []string{"OTHER=1", "VERIF_X=outer"}
		}
	}
	if r.intn(500) == 0 {
		// one Action value under a Timeout, invoked again after an invocation that missed the budget has finished in
		// the background: the later answer is the later invocation's own
		in.Table = []*xExpr{{K: "timedEcho", Opaque: true}}
		in.Steps = []historyStep{{E: 0, Ctx: xCtx{Value: "slow1"}}, {E: 0, Ctx: xCtx{Value: pick(r, []string{"quick2", "q"})}, Pause: 350}, {E: 0, Ctx: xCtx{Value: "quick3"}}}
		if r.chance(50) {
			in.Steps = append([]historyStep{{E: 0, Ctx: xCtx{Value: "quick0"}}}, in.Steps...)
		}
		return in
	}
	if r.chance(6) {
		return genSharedStoredMessage(r)
	}
	if r.chance(3) {
		// a result behind the file cache with everything a result can carry: the first invocation computes and stores it, the
		// later ones read it back
		in.Table = []*xExpr{{K: "cached", N: r.intn(3), S: "meta", Opaque: true}}
		c := xCtx{Value: pick(r, []string{"", "c", "cm"})}
		in.Steps = []historyStep{{E: 0, Ctx: c}, {E: 0, Ctx: c}, {E: 0, Ctx: c}}
		return in
	}
	if r.chance(2) {
		// an external command under Contexts with and without a PATH of their own, in turn
		in.Table = []*xExpr{{K: "execpath", Opaque: true}}
		c0 := xCtx{Value: ""}
		c1 := xCtx{Value: "", Env: []string{"OTHER=1", "PATH=$HISTBIN"}}
		in.Steps = []historyStep{{E: 0, Ctx: c0}, {E: 0, Ctx: c1}, {E: 0, Ctx: c0}}
		if r.chance(40) {
			in.Steps = []historyStep{{E: 0, Ctx: c1}, {E: 0, Ctx: c0}, {E: 0, Ctx: c1}, {E: 0, Ctx: c0}}
		}
		return in
	}
	if r.chance(3) {
		// files under Contexts whose LS_COLORS differ (set by the caller, or by a callback on its own copy): the style of a
		// path is a function of the path and the Context it is invoked with, whatever was styled before in this process
		in.Table = []*xExpr{{K: "lsfiles", S: "*.txt=01;35", Opaque: true}, {K: "lsfiles", Opaque: true}, {K: "lsfiles", S: "*.txt=32:di=01;33:*.json=04", Opaque: true}}
		envs := [][]string{nil, {"LS_COLORS=*.json=36"}, {"LS_COLORS="}}
		for n := 3 + r.intn(3); n > 0; n-- {
			in.Steps = append(in.Steps, historyStep{E: r.intn(3), Ctx: xCtx{Dir: "$HISTFIX", Value: pick(r, []string{"", "", "c", "sub/"}), Env: pick(r, envs)}})
		}
		return in
	}
	if r.chance(5) {
		// completion functions registered with cobra that hand out the same slice every time: the bridge must not write into it
		in.Table = []*xExpr{{K: pick(r, []string{"cobrafiles", "cobrafiles", "cobravalues"}), Opaque: true}}
		c := xCtx{Dir: "$HISTFIX", Value: pick(r, []string{"", "a", "o"})}
		in.Steps = []historyStep{{E: 0, Ctx: c}, {E: 0, Ctx: c}, {E: 0, Ctx: c}}
		return in
	}
	if r.chance(12) {
		// captured-parameter probe: a modifier whose parameter lives in the closure is invoked with
		// Contexts of very different shape in turn (few / many args, short / long value); an
		// invocation must not adjust the captured parameter for the next one
		inner := &xExpr{K: "echo"}
		var probe *xExpr
		switch r.intn(4) {
		case 0, 1:
			probe = &xExpr{K: "shift", N: 2 + r.intn(2), E: inner}
		case 2:
			probe = &xExpr{K: "multiPartsN", S: pick(r, []string{"/", ":"}), N: 2 + r.intn(2), E: inner}
		default:
			probe = &xExpr{K: "pfx", S: "pre-", E: &xExpr{K: "shift", N: 1 + r.intn(3), E: inner}}
		}
		in.Table = append(in.Table, probe)
		small := xCtx{Value: pick(r, []string{"", "a"}), Args: []string{"one"}[:r.intn(2)]}
		big := xCtx{Value: pick(r, []string{"a/b/c/d", "x:y:z:w", "pre-a/b"}), Args: []string{"one", "two", "three", "four", "five"}[:3+r.intn(3)]}
		in.Steps = nil
		for i := 0; i < 4+r.intn(3); i++ {
			c := small
			if i%2 == 1 {
				c = big
			}
			in.Steps = append(in.Steps, historyStep{E: len(in.Table) - 1, Ctx: c})
		}
		return in
	}
	steps := 2 + r.intn(5)
	for i := 0; i < steps; i++ {
		in.Steps = append(in.Steps, historyStep{E: r.intn(n), Ctx: pick(r, ctxs)})
	}
	return in
}

func genRepeat(r *rng, tier string) interface{} {
	// determinism: sets with equal displays / equal values built through Batch, MultiParts, Unique
	mk := func() *xExpr {
		n := 2 + r.intn(4)
		x := &xExpr{K: "values", Vs: [][3]string{}}
		for i := 0; i < n; i++ {
			x.Vs = append(x.Vs, [3]string{pick(r, []string{"a", "b", "a/b", "a/c", "c", "ab"}), pick(r, []string{"", "d1", "d2", "d3"}), pick(r, []string{"", "red", "blue"})})
		}
		return x
	}
	var e *xExpr
	if r.chance(20) {
		// several messages at once: the ERR entries must pair with the same message every time
		e = &xExpr{K: "batch", Es: []*xExpr{{K: "message", M: "first message"}, {K: "message", M: "second message"}, {K: "message", M: "third"}, mk()}}
		c := genCtx(r)
		c.Value = ""
		c.CI = false
		return repeatIn{Expr: e, Ctx: c, Shell: pick(r, []string{"fish", "bash", "nushell", "bash-ble", "xonsh", "ion"}), N: 30}
	}
	if r.chance(8) {
		// a large batch whose members produce equal values with different descriptions: last member wins
		e = &xExpr{K: "batch", Es: []*xExpr{}}
		for i := 0; i < 20; i++ {
			e.Es = append(e.Es, &xExpr{K: "values", Vs: [][3]string{{pick(r, []string{"same", "same", "v" + itoa(i%3)}), "from member " + itoa(i), ""}}})
		}
		c := genCtx(r)
		c.Value = ""
		c.CI = false
		return repeatIn{Expr: e, Ctx: c, Shell: pick(r, []string{"fish", "export", "elvish"}), N: 40}
	}
	if r.chance(8) {
		// an invoked action with spare capacity, captured as the first member of nested batches that run side by side
		c0 := xCtx{}
		shared := &xExpr{K: "stored", Ctx: &c0, E: &xExpr{K: "filter", Xs: []string{"b", "d"}, E: &xExpr{K: "plain", Ps: []string{"a", "b", "c", "d", "e"}}}}
		outer := []*xExpr{}
		for i := 0; i < 6+r.intn(10); i++ {
			outer = append(outer, &xExpr{K: "pfx", S: itoa(i) + ":", E: &xExpr{K: "batch", Es: []*xExpr{{K: "ref", ID: 0}, {K: "plain", Ps: []string{"own-" + itoa(i)}}}}})
		}
		return repeatIn{Expr: &xExpr{K: "batch", Es: outer}, Shared: shared, Ctx: c0, Shell: pick(r, []string{"fish", "export", "elvish"}), N: 40}
	}
	if r.chance(8) {
		// Batch members that each set the same variable - one the Context already defines - on their own copy of the Context
		// and then read it back: every member reads its own value, whatever the schedule
		members := []*xExpr{}
		for i := 0; i < 6+r.intn(10); i++ {
			members = append(members, &xExpr{K: "pfx", S: itoa(i) + ":", E: &xExpr{K: "withCtx", Edits: []xEdit{{K: "setenv", S: "VERIF_X", V: "member" + itoa(i)}}, E: &xExpr{K: "echo"}}})
		}
		c := xCtx{Env: []string{"OTHER=1", "VERIF_X=outer", "LAST=1"}}
		if r.chance(30) {
			c.Env = []string{"VERIF_X=outer"}
		}
		return repeatIn{Expr: &xExpr{K: "batch", Es: members}, Ctx: c, Shell: pick(r, []string{"export", "fish", "elvish"}), N: 40}
	}
	if r.chance(10) {
		// MultiPartsP: static segments beside placeholders whose callbacks yield the same values; several placeholders at one position
		ps := []string{"root", "the static root", "{user}", "any user", "{group}/sub", "a group", "x/y", "static x", "{user}/home", "home of a user", "guest", "static guest"}
		keep := []string{}
		for i := 0; i+1 < len(ps); i += 2 {
			if r.chance(75) {
				keep = append(keep, ps[i], ps[i+1])
			}
		}
		e = &xExpr{K: "multiPartsP", Ps: keep, Opaque: true}
		c := xCtx{Value: pick(r, []string{"", "r", "x", "root/", "x/"})}
		return repeatIn{Expr: e, Ctx: c, Shell: pick(r, []string{"export", "fish", "zsh", "elvish", "bash"}), N: 40}
	}
	if r.chance(12) {
		// displays that differ only in case, rebuilt from maps (Batch / MultiParts): their order must not vary
		tw := func() *xExpr {
			x := &xExpr{K: "values", Vs: [][3]string{}}
			for _, v := range []string{"README", "Readme", "readme", "Docs/a", "docs/b", "DOCS/c", "other"} {
				if r.chance(70) {
					x.Vs = append(x.Vs, [3]string{v, pick(r, []string{"", "d"}), ""})
				}
			}
			return x
		}
		e = &xExpr{K: "batch", Es: []*xExpr{tw(), tw()}}
		if r.chance(40) {
			e = &xExpr{K: "multiParts", Xs: []string{"/"}, E: e}
		}
		c := xCtx{}
		return repeatIn{Expr: e, Ctx: c, Shell: pick(r, []string{"fish", "bash", "zsh", "elvish", "nushell", "tcsh"}), N: 40}
	}
	if r.chance(12) {
		// members with different tags whose values share the leading segment: the tag of the segment must not vary
		m1 := &xExpr{K: "tag", S: "branches", E: &xExpr{K: "plain", Ps: []string{"origin/main", "origin/dev", "up/x"}}}
		m2 := &xExpr{K: "tag", S: "tags", E: &xExpr{K: "plain", Ps: []string{"origin/v1", "origin/v2", "up/y"}}}
		e = &xExpr{K: "multiParts", Xs: []string{"/"}, E: &xExpr{K: "batch", Es: []*xExpr{m1, m2}}}
		c := xCtx{Value: pick(r, []string{"", "o"})}
		return repeatIn{Expr: e, Ctx: c, Shell: pick(r, []string{"zsh", "export", "zsh"}), N: 40}
	}
	switch r.intn(5) {
	case 0:
		e = &xExpr{K: "batch", Es: []*xExpr{mk(), mk(), {K: "sfx", S: "", E: mk()}}}
	case 1:
		e = &xExpr{K: "multiParts", Xs: []string{"/"}, E: &xExpr{K: "batch", Es: []*xExpr{mk(), mk()}}}
	case 2:
		// different values, equal display: prefix changes the value only
		e = &xExpr{K: "batch", Es: []*xExpr{{K: "withCtx", Edits: []xEdit{{K: "setValue", S: ""}}, E: &xExpr{K: "pfx", S: "", E: mk()}}, {K: "withCtx", Edits: []xEdit{{K: "setValue", S: ""}}, E: &xExpr{K: "sfx", S: "x", E: mk()}}}}
	case 3:
		e = genExpr(r, 3)
	default:
		e = &xExpr{K: "batch", Es: []*xExpr{mk(), {K: "sfx", S: "/", E: mk()}, {K: "sfx", S: "=", E: mk()}}}
	}
	c := genCtx(r)
	c.Value = pick(r, []string{"", "", "a"})
	c.CI = false
	return repeatIn{Expr: e, Ctx: c, Shell: pick(r, []string{"fish", "bash", "zsh", "elvish", "export", "nushell", "bash-ble"}), N: 30}
}

// ---- op "batchrace": Batch scenarios for the race detector (C09); run on the -race build
var batchRaceCount int

// genSharedStoredMessage: a stored (already invoked) action that carries a message, shared by several batches as a member that is
// not the first one: what the batches add to or remove from *their* messages must not reach the stored action (nor each other)
func genSharedStoredMessage(r *rng) historyIn {
	in := historyIn{}
	c0 := xCtx{}
	stored := &xExpr{K: "stored", Ctx: &c0, E: &xExpr{K: "message", M: "stored message"}}
	plain := func() *xExpr { return &xExpr{K: "plain", Ps: []string{"a", "b"}} }
	in.Table = []*xExpr{stored,
		{K: "batch", Es: []*xExpr{plain(), {K: "ref", ID: 0}, {K: "message", M: "later message"}}},
		{K: "batch", Es: []*xExpr{plain(), {K: "ref", ID: 0}}},
		{K: "suppress", S: "stored", E: &xExpr{K: "batch", Es: []*xExpr{plain(), {K: "ref", ID: 0}}}},
		{K: "ref", ID: 0}}
	c := xCtx{}
	for _, e := range pick(r, [][]int{{1, 2, 4}, {3, 2, 4}, {1, 3, 2}, {2, 1, 2, 3, 4}}) {
		in.Steps = append(in.Steps, historyStep{E: e, Ctx: c})
	}
	return in
}

func genBatchRace(r *rng, tier string) interface{} {
	in := historyIn{}
	if r.chance(6) {
		return genSharedStoredMessage(r)
	}
	if r.chance(12) {
		// registrations for ONE command from many members at once: none may be lost
		n := 8 + r.intn(16)
		members := []*xExpr{}
		for i := 0; i < n; i++ {
			members = append(members, &xExpr{K: "regflag", N: i})
		}
		in.Table = []*xExpr{{K: "batch", Es: members}, {K: "regprobe", N: n}}
		c := xCtx{}
		in.Steps = []historyStep{{E: 0, Ctx: c}, {E: 1, Ctx: c}}
		return in
	}
	if r.chance(12) {
		// an invoked action with spare capacity in its candidate slice (the result of a filter), captured as the
		// FIRST member of several nested batches that run side by side: merging must not write into it
		c0 := xCtx{}
		shared := &xExpr{K: "stored", Ctx: &c0, E: &xExpr{K: "filter", Xs: []string{"b", "d"}, E: &xExpr{K: "plain", Ps: []string{"a", "b", "c", "d", "e"}}}}
		if r.chance(50) {
			shared = &xExpr{K: "stored", Ctx: &c0, E: &xExpr{K: "retain", Xs: []string{"a"}, E: &xExpr{K: "plain", Ps: []string{"a", "b", "c", "d"}}}}
		}
		in.Table = []*xExpr{shared}
		outer := []*xExpr{}
		n := 4 + r.intn(12)
		for i := 0; i < n; i++ {
			outer = append(outer, &xExpr{K: "pfx", S: itoa(i) + ":", E: &xExpr{K: "batch", Es: []*xExpr{{K: "ref", ID: 0}, {K: "plain", Ps: []string{"own-" + itoa(i)}}}}})
		}
		in.Table = append(in.Table, &xExpr{K: "batch", Es: outer})
		for i := 0; i < 3; i++ {
			in.Steps = append(in.Steps, historyStep{E: 1, Ctx: c0})
		}
		return in
	}
	// (every command ever handed to carapace.Gen leaves an initializer in cobra's global list, and every Execute runs the whole
	// list: the scenario is generated among the first cases of a run only, or the run time grows with the square of its length)
	batchRaceCount++
	if batchRaceCount <= 3000 && r.chance(10) {
		// members that run embedded commands through ActionExecute, members behind the file cache (same and different keys)
		members := []*xExpr{}
		for i := 0; i < 3+r.intn(8); i++ {
			switch r.intn(3) {
			case 0:
				members = append(members, &xExpr{K: "execute", N: i})
			case 1:
				members = append(members, &xExpr{K: "cached", N: r.intn(3)})
			default:
				members = append(members, &xExpr{K: "plain", Ps: []string{"pl" + itoa(i)}})
			}
		}
		in.Table = []*xExpr{{K: "batch", Es: members, Opaque: true}}
		c := xCtx{}
		in.Steps = []historyStep{{E: 0, Ctx: c}, {E: 0, Ctx: c}}
		return in
	}
	leaf := func() *xExpr { return genLeaf(r) }
	shared := leaf()
	switch r.intn(4) {
	case 0:
		shared = &xExpr{K: "nospace", S: "/", E: shared}
	case 1:
		shared = &xExpr{K: "usage", S: "shared usage", E: shared}
	case 2:
		shared = &xExpr{K: "multiParts", Xs: []string{"/"}, E: shared}
	}
	in.Table = append(in.Table, shared)
	ref := func() *xExpr { return &xExpr{K: "ref", ID: 0} }
	members := []*xExpr{}
	n := 2 + r.intn(4)
	if r.chance(35) {
		// several members that register completions for commands nobody has seen yet
		for i := 0; i < 4+r.intn(12); i++ {
			members = append(members, &xExpr{K: "gen"})
		}
	}
	for i := 0; i < n; i++ {
		var m *xExpr
		switch r.intn(9) {
		case 0:
			m = &xExpr{K: "pfx", S: itoa(i), E: ref()}
		case 1:
			m = ref()
		case 2:
			m = &xExpr{K: "withCtx", Edits: []xEdit{{K: "setenv", S: "VERIF_X", V: itoa(i)}}, E: &xExpr{K: "echo"}}
		case 3:
			m = &xExpr{K: "batch", Es: []*xExpr{leaf(), &xExpr{K: "sfx", S: "n", E: ref()}}}
		case 4:
			m = &xExpr{K: "withCtx", Edits: []xEdit{{K: "setArgs", Xs: []string{"x"}}, {K: "setValue", S: ""}}, E: leaf()}
		case 5:
			m = &xExpr{K: "style", S: "red", E: ref()}
		case 6:
			m = &xExpr{K: "gen"}
		default:
			m = genExpr(r, 2)
		}
		members = append(members, m)
	}
	in.Table = append(in.Table, &xExpr{K: "batch", Es: members})
	c := genCtx(r)
	c.CI = false
	if r.chance(60) {
		// spare capacity in Env after one Setenv: two members appending share the slot
		c.Env = []string{"A=1", "B=2"}
		in.Table[1] = &xExpr{K: "withCtx", Edits: []xEdit{{K: "setenv", S: "OUTER", V: "1"}}, E: in.Table[1]}
	}
	for i := 0; i < 3; i++ {
		in.Steps = append(in.Steps, historyStep{E: 1, Ctx: c})
	}
	return in
}

func init() {
	ops["batchrace"] = &opDef{gen: genBatchRace, run: runHistory}
	ops["invoke"] = &opDef{gen: genInvoke, run: runInvoke}
	ops["history"] = &opDef{gen: genHistory, run: runHistory}
	ops["repeat"] = &opDef{gen: genRepeat, run: runRepeat}
}
