package main

// splitmix64: every random choice of a case derives from (seed, engine, index).
type rng struct{ s uint64 }

func newRng(seed uint64, salt string, index uint64) *rng {
	h := seed*0x9E3779B97F4A7C15 + 0x1234567
	for _, c := range []byte(salt) {
		h = (h ^ uint64(c)) * 0x100000001B3
	}
	r := &rng{s: h ^ (index+1)*0xBF58476D1CE4E5B9}
	r.next()
	r.next()
	return r
}

func (r *rng) next() uint64 {
	r.s += 0x9E3779B97F4A7C15
	z := r.s
	z = (z ^ (z >> 30)) * 0xBF58476D1CE4E5B9
	z = (z ^ (z >> 27)) * 0x94D049BB133111EB
	return z ^ (z >> 31)
}

func (r *rng) intn(n int) int {
	if n <= 0 {
		return 0
	}
	return int(r.next() % uint64(n))
}

func (r *rng) chance(percent int) bool { return r.intn(100) < percent }

func pick[T any](r *rng, xs []T) T { return xs[r.intn(len(xs))] }

// weighted picks index i with probability w[i]/sum(w)
func (r *rng) weighted(w []int) int {
	sum := 0
	for _, x := range w {
		sum += x
	}
	k := r.intn(sum)
	for i, x := range w {
		if k < x {
			return i
		}
		k -= x
	}
	return len(w) - 1
}
