package main

// op "pflagparse": the program's own flag parser (carapace-pflag) on a word list, without cobra:
// ties the Lean specification Spec/Pflag.lean to the real package (C01).

import (
	"encoding/json"
	"fmt"
	"io"

	"github.com/spf13/pflag"
)

type pflagIn struct {
	Flags        []flagSpec `json:"flags"`
	Interspersed bool       `json:"interspersed"`
	Args         []string   `json:"args"`
	Whitelist    bool       `json:"whitelist"` // ParseErrorsWhitelist.UnknownFlags
}

func runPflagParse(raw json.RawMessage) interface{} {
	var in pflagIn
	must(json.Unmarshal(raw, &in))
	fs := pflag.NewFlagSet("x", pflag.ContinueOnError)
	fs.SetOutput(io.Discard)
	fs.SetInterspersed(in.Interspersed)
	fs.ParseErrorsWhitelist.UnknownFlags = in.Whitelist
	for _, f := range in.Flags {
		switch {
		case f.Mode == 1 && f.Kind == "bool":
			fs.BoolS(f.Name, f.Short, false, "")
		case f.Mode == 2 && f.Kind == "bool":
			fs.BoolN(f.Name, f.Short, false, "")
		case f.Mode == 1 && f.Kind == "count":
			fs.CountS(f.Name, f.Short, "")
		case f.Mode == 2 && f.Kind == "count":
			fs.CountN(f.Name, f.Short, "")
		case f.Mode == 1 && f.Kind == "stringSlice":
			fs.StringSliceS(f.Name, f.Short, nil, "")
		case f.Mode == 2 && f.Kind == "stringSlice":
			fs.StringSliceN(f.Name, f.Short, nil, "")
		case f.Mode == 1:
			fs.StringS(f.Name, f.Short, "", "")
		case f.Mode == 2:
			fs.StringN(f.Name, f.Short, "", "")
		}
		if f.Mode != 0 {
			continue
		}
		switch f.Kind {
		case "bool":
			fs.BoolP(f.Name, f.Short, false, "")
		case "count":
			fs.CountP(f.Name, f.Short, "")
		case "stringSlice":
			fs.StringSliceP(f.Name, f.Short, nil, "")
		case "stringArray":
			fs.StringArrayP(f.Name, f.Short, nil, "")
		case "ipNetSlice":
			fs.IPNetSliceP(f.Name, f.Short, nil, "")
		case "boolSlice":
			fs.BoolSliceP(f.Name, f.Short, nil, "")
		case "optString":
			fs.StringP(f.Name, f.Short, "", "")
			fs.Lookup(f.Name).NoOptDefVal = "dflt"
		default:
			fs.StringP(f.Name, f.Short, "", "")
		}
	}
	for _, f := range in.Flags {
		if f.Nargs != 0 {
			fs.Lookup(f.Name).Nargs = f.Nargs
		}
		if f.Delim != "" {
			fs.Lookup(f.Name).OptargDelimiter = []rune(f.Delim)[0]
		}
	}
	out := map[string]interface{}{}
	var err error
	func() {
		defer func() {
			if p := recover(); p != nil {
				err = fmt.Errorf("panic: %v", p)
			}
		}()
		err = fs.Parse(in.Args)
	}()
	if err != nil {
		out["err"] = err.Error()
		return out
	}
	out["args"] = append([]string{}, fs.Args()...)
	out["lenAtDash"] = fs.ArgsLenAtDash()
	vals := [][2]string{}
	fs.Visit(func(f *pflag.Flag) {
		v := f.Value.String()
		if t := f.Value.Type(); t == "stringArray" || t == "ipNetSlice" || t == "boolSlice" {
			v = "*" // only whether the flag was set (the text form goes through a CSV writer)
		}
		vals = append(vals, [2]string{f.Name, v})
	})
	out["values"] = vals
	return out
}

func genPflagParse(r *rng, tier string) interface{} {
	t := genTree(r)
	in := pflagIn{Flags: t.Cmds[0].Flags, Interspersed: !r.chance(25)}
	for i := range in.Flags {
		in.Flags[i].Persistent, in.Flags[i].Mutex, in.Flags[i].Hidden, in.Flags[i].Deprecated, in.Flags[i].ShortDepr = false, nil, false, false, false
	}
	one := treeSpec{Cmds: []cmdSpec{{Name: "root", Parent: -1, Interspersed: in.Interspersed, Flags: in.Flags}}}
	if r.chance(20) {
		// the fork's features: several words per flag, custom delimiters
		pi := genParseFork(r, one)
		in.Flags = pi.Tree.Cmds[0].Flags
		in.Interspersed = pi.Tree.Cmds[0].Interspersed
		in.Args = pi.Words
		if r.chance(50) {
			in.Args = append(in.Args, pick(r, []string{"tail", "-y", "--", "--color", "-"}))
		}
		return in
	}
	in.Args = genLine(r, one)
	if r.chance(12) {
		// a non-POSIX flag set
		pi := genParseNonPosix(r, one)
		in.Flags = pi.Tree.Cmds[0].Flags
		in.Interspersed = pi.Tree.Cmds[0].Interspersed
		in.Args = pi.Words
		in.Whitelist = r.chance(20)
		if r.chance(50) {
			in.Args = append(in.Args, pick(r, []string{"tail", "-c", "--", "-delim", "-", "-x", "-h", "--help", "-bool-short=false", "-c=", "-c=5"}))
		}
		return in
	}
	if r.chance(12) {
		// unknown flags tolerated: an unknown flag takes the next word along unless it looks like a flag
		in.Whitelist = true
		pi := genParseUnknown(r, one)
		in.Args = pi.Words
		if r.chance(50) {
			in.Args = append(in.Args, pick(r, []string{"tail", "-z", "--", "--color", "-", "-zn", "-nz", "--help", "-zh"}))
		}
		return in
	}
	if r.chance(30) {
		in.Args = append(in.Args, pick(r, []string{"--", "-", "x", "--unknown", "-z", "--help", "-h", "-=", "--=", "---", "--a=b=c"}))
	}
	return in
}

func init() {
	ops["pflagparse"] = &opDef{gen: genPflagParse, run: runPflagParse}
}
