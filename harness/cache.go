package main

import (
	"encoding/json"
	"fmt"
	"os"
	"path/filepath"
	"runtime"
	"strconv"
	"strings"
	"time"

	"github.com/carapace-sh/carapace"
	"github.com/carapace-sh/carapace/pkg/cache/key"
	"verif/harness/sitea"
	"verif/harness/siteb"
)

// ---- op "cache": histories of a cached Action against a private cache directory (C14)

type cacheOp struct {
	K       string     `json:"k"`       // invoke | advance | corrupt | foreign
	Site    int        `json:"site"`    // call site 0..2
	KB      [][]string `json:"kb"`      // key tuple before the real invocation
	KA      [][]string `json:"ka"`      // key tuple after it
	Timeout int        `json:"timeout"` // seconds; negative = never expires
	Msg     bool       `json:"msg"`     // the fresh result carries a message
	Dt      int        `json:"dt"`      // advance: seconds
	Kind    string     `json:"kind"`    // corrupt: garbage | truncate | empty | dir | loop
}

type cacheIn struct {
	Ops   []cacheOp `json:"ops"`
	Const bool      `json:"const"` // every real invocation yields the same (byte-identical) result
}

// three call sites: runtime.Caller(0) and the Cache call share a line, so the site is known
func cacheSite0(a carapace.Action, t time.Duration, keys ...key.Key) (carapace.Action, string, int) {
	_, f, l, _ := runtime.Caller(0); a = a.Cache(t, keys...) //nolint
	return a, f, l
}

func cacheSite1(a carapace.Action, t time.Duration, keys ...key.Key) (carapace.Action, string, int) {
	_, f, l, _ := runtime.Caller(0); a = a.Cache(t, keys...) //nolint
	return a, f, l
}

func cacheSite2(a carapace.Action, t time.Duration, keys ...key.Key) (carapace.Action, string, int) {
	_, f, l, _ := runtime.Caller(0); a = a.Cache(t, keys...) //nolint
	return a, f, l
}

// sites 3 and 4: files with the same base name, the call on the same line, in different directories
var cacheSites = []func(carapace.Action, time.Duration, ...key.Key) (carapace.Action, string, int){cacheSite0, cacheSite1, cacheSite2, sitea.Site, siteb.Site}

func keyFuncs(cur *[][]string, n int) []key.Key {
	ks := make([]key.Key, n)
	for i := 0; i < n; i++ {
		i := i
		ks[i] = func() (string, error) {
			if i < len(*cur) {
				return key.String((*cur)[i]...)()
			}
			return "", nil
		}
	}
	return ks
}

func staticKeys(t [][]string) []key.Key {
	ks := make([]key.Key, len(t))
	for i := range t {
		ks[i] = key.String(t[i]...)
	}
	return ks
}

func runCache(raw json.RawMessage) interface{} {
	var in cacheIn
	must(json.Unmarshal(raw, &in))
	dir, err := os.MkdirTemp("", "verif-cache")
	must(err)
	defer os.RemoveAll(dir)
	old := os.Getenv("XDG_CACHE_HOME")
	os.Setenv("XDG_CACHE_HOME", dir)
	defer os.Setenv("XDG_CACHE_HOME", old)

	counter := 0
	outs := []map[string]interface{}{}
	for _, op := range in.Ops {
		o := map[string]interface{}{"r": -1, "real": false}
		switch op.K {
		case "invoke":
			cur := op.KB
			n := len(op.KB)
			if len(op.KA) > n {
				n = len(op.KA)
			}
			before := counter
			a := carapace.ActionCallback(func(c carapace.Context) carapace.Action {
				counter++
				cur = op.KA
				v := carapace.ActionValues("r" + strconv.Itoa(counter))
				if in.Const {
					v = carapace.ActionValues("r0")
				}
				if op.Msg {
					return carapace.Batch(v, carapace.ActionMessage("failed")).ToA()
				}
				return v
			})
			cached, _, _ := cacheSites[op.Site%len(cacheSites)](a, time.Duration(op.Timeout)*time.Second, keyFuncs(&cur, n)...)
			res := invokeSafe(cached, carapace.Context{})
			if res.Panic != "" {
				o["panic"] = res.Panic
			}
			for _, v := range res.Values {
				if strings.HasPrefix(v.Value, "r") {
					if k, err := strconv.Atoi(v.Value[1:]); err == nil {
						o["r"] = k
					}
				}
			}
			o["real"] = counter != before
			o["nvalues"] = len(res.Values)
		case "advance":
			filepath.Walk(dir, func(p string, info os.FileInfo, err error) error {
				if err == nil && !info.IsDir() {
					t := info.ModTime().Add(-time.Duration(op.Dt) * time.Second)
					os.Chtimes(p, t, t)
				}
				return nil
			})
		case "corrupt":
			_, f, l := cacheSites[op.Site%len(cacheSites)](carapace.ActionValues(), 0)
			file, err := carapace.VerifCacheFile(f, l, staticKeys(op.KB)...)
			if err == nil {
				if st, serr := os.Lstat(file); serr == nil {
					mt := st.ModTime()
					switch op.Kind {
					case "garbage":
						os.WriteFile(file, []byte("not json {"), 0o600)
						os.Chtimes(file, mt, mt)
					case "truncate":
						b, _ := os.ReadFile(file)
						os.WriteFile(file, b[:len(b)/2], 0o600)
						os.Chtimes(file, mt, mt)
					case "empty":
						os.WriteFile(file, []byte{}, 0o600)
						os.Chtimes(file, mt, mt)
					case "trailing":
						// a torn write: a complete entry followed by the tail of a longer one
						b, _ := os.ReadFile(file)
						os.WriteFile(file, append(b, []byte(`"x"}]}`)...), 0o600)
						os.Chtimes(file, mt, mt)
					case "dir":
						os.Remove(file)
						os.Mkdir(file, 0o700)
					case "loop":
						os.Remove(file)
						os.Symlink(file, file)
					}
					o["corrupted"] = true
				}
			}
		case "foreign":
			filepath.Walk(dir, func(p string, info os.FileInfo, err error) error {
				if err == nil && info.IsDir() {
					os.WriteFile(filepath.Join(p, "foreign.txt"), []byte("{\"values\":[{\"value\":\"foreign\",\"display\":\"foreign\"}]}"), 0o600)
				}
				return nil
			})
		}
		outs = append(outs, o)
	}
	return map[string]interface{}{"outs": outs}
}

func genCache(r *rng, tier string) interface{} {
	in := cacheIn{}
	keyPool := [][]string{{"a"}, {"b"}, {"a", "b"}, {"k1"}, {"x", "y"}, {"c"}}
	if r.chance(8) {
		keyPool = append(keyPool, []string{""})
	}
	if r.chance(10) {
		keyPool = append(keyPool, []string{"a\nb"}, []string{"a\x01b"})
	}
	tuple := func() [][]string {
		n := r.intn(3)
		t := [][]string{}
		for i := 0; i < n; i++ {
			t = append(t, pick(r, keyPool))
		}
		return t
	}
	tuples := [][][]string{tuple(), tuple(), tuple()}
	if r.chance(15) {
		// tuples of the same length whose key texts concatenate to the same string
		tuples = [][][]string{{{"ab"}, {"c"}}, {{"a"}, {"bc"}}, {{"abc"}, {""}}}
	}
	timeouts := []int{10, 100, -1, 1000, 0}
	site := func() int {
		if r.chance(25) {
			return 3 + r.intn(2)
		}
		return r.intn(3)
	}
	in.Const = r.chance(20)
	nops := 3 + r.intn(12)
	for i := 0; i < nops; i++ {
		switch k := r.intn(20); {
		case k < 12:
			kb := pick(r, tuples)
			ka := kb
			if r.chance(15) {
				// keys that change as a side effect of the invocation (same number of keys)
				if cand := pick(r, tuples); len(cand) == len(kb) {
					ka = cand
				}
			}
			in.Ops = append(in.Ops, cacheOp{K: "invoke", Site: site(), KB: kb, KA: ka, Timeout: pick(r, timeouts), Msg: r.chance(15)})
		case k < 16:
			in.Ops = append(in.Ops, cacheOp{K: "advance", Dt: pick(r, []int{3, 5, 15, 50, 95, 105, 1000})})
		case k < 18:
			kind := pick(r, []string{"garbage", "truncate", "empty", "trailing"})
			if r.intn(40) == 0 {
				kind = "loop"
			}
			if r.intn(25) == 0 {
				kind = "dir"
			}
			in.Ops = append(in.Ops, cacheOp{K: "corrupt", Site: site(), KB: pick(r, tuples), Kind: kind})
		default:
			in.Ops = append(in.Ops, cacheOp{K: "foreign"})
		}
	}
	return in
}

var _ = fmt.Sprint

func init() {
	ops["cache"] = &opDef{gen: genCache, run: runCache}
}
