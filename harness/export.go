package main

import (
	"os"
	"github.com/spf13/cobra"
	"encoding/json"
	"strings"

	"github.com/carapace-sh/carapace"
)

// ---- op "exportrt": export document and round trip through ActionImport (C13)

type exportIn struct {
	Meta   fmtMeta    `json:"meta"`
	Values []fmtValue `json:"values"` // null = nil slice
	Execute bool      `json:"execute"` // the import side goes through ActionExecute on an embedded command (via "shell" only)
	Via    string     `json:"via"`    // "export" (InvokedAction.export, keeps uid) | "shell" (value("export"), the `_carapace export` path)
	EnvNospace string `json:"envNospace"` // CARAPACE_NOSPACE in the exporting process (via "shell"): the user's preference for his own shell, not part of what travels
}

func runExportRT(raw json.RawMessage) interface{} {
	var in exportIn
	must(json.Unmarshal(raw, &in))
	var meta carapace.VerifMeta
	for _, m := range in.Meta.Messages {
		meta.Messages.Add(m)
	}
	if in.Meta.Nospace != "" {
		meta.Nospace.Add([]rune(in.Meta.Nospace)...)
	}
	meta.Usage = in.Meta.Usage
	var values []carapace.VerifRawValue
	if in.Values != nil {
		values = make([]carapace.VerifRawValue, len(in.Values))
		for i, v := range in.Values {
			values[i] = carapace.VerifRawValue{Value: v.Value, Display: v.Display, Description: v.Description, Style: v.Style, Tag: v.Tag, Uid: v.Uid}
		}
	}
	ia := carapace.VerifAction(meta, values).Invoke(carapace.Context{})
	var doc string
	if in.Via == "shell" {
		for _, k := range []string{"CARAPACE_UNFILTERED", "NO_COLOR", "CARAPACE_NOSPACE", "CLICOLOR"} {
			setenvBool(k, false)
		}
		carapace.VerifSetMatch(false)
		if in.EnvNospace != "" {
			os.Setenv("CARAPACE_NOSPACE", in.EnvNospace)
			defer os.Unsetenv("CARAPACE_NOSPACE")
		}
		doc = carapace.VerifValue(ia, "export", "")
	} else {
		b, err := carapace.VerifExportJSON(ia)
		if err != nil {
			return map[string]interface{}{"error": err.Error()}
		}
		doc = string(b)
	}
	var probe struct {
		Version string `json:"version"`
	}
	json.Unmarshal([]byte(doc), &probe)
	imported := invokeSafe(carapace.ActionImport([]byte(doc)), carapace.Context{})
	// one imported Action value, used as the base of a derived action and then invoked itself: what it holds is the document
	imp := carapace.ActionImport([]byte(doc))
	invokeSafe(imp.Suffix("+").Prefix("p").Style("red").Suppress(".*"), carapace.Context{})
	importedAgain := invokeSafe(imp, carapace.Context{})
	if in.Execute && in.Via == "shell" {
		// the same completion served by an embedded command and fetched with ActionExecute
		cmd := &cobra.Command{Use: "emb", Run: func(*cobra.Command, []string) {}}
		carapace.Gen(cmd).PositionalAnyCompletion(carapace.VerifAction(meta, values))
		imported = invokeSafe(carapace.ActionExecute(cmd), carapace.Context{Args: []string{"x"}}) // second position: no sub-command names mixed in
	}
	return map[string]interface{}{"doc": doc, "version": probe.Version, "imported": imported, "importedAgain": importedAgain}
}

func genExportRT(r *rng, tier string) interface{} {
	in := exportIn{Via: pick(r, []string{"export", "shell"})}
	text := func(n int) string {
		if r.chance(30) {
			return pick(r, []string{"", "a\"b", "back\\slash", "tab\there", "nl\nline", "cr\rx", "\x00nul", "\x1b[31m", "del\x7f", "<tag>&amp;", " sep ", "é𝄞本", "�", "\b\f", "a/b", "'q'"})
		}
		return genText(r, n, 30)
	}
	n := pick(r, []int{0, 1, 2, 3, 5, 8})
	if r.intn(60) == 0 {
		n = 300
	}
	if n > 0 || r.chance(50) {
		in.Values = []fmtValue{}
	}
	for i := 0; i < n; i++ {
		v := fmtValue{Value: text(8), Display: text(8), Description: text(12)}
		if r.chance(40) {
			v.Style = pick(r, []string{"red", "bold", text(4)})
		}
		if r.chance(40) {
			v.Tag = text(5)
		}
		if r.chance(20) && in.Via == "export" {
			v.Uid = "cmd://" + text(4)
		}
		if r.chance(15) && i > 0 {
			v.Value = in.Values[r.intn(i)].Value // same value, different display / description
		}
		in.Values = append(in.Values, v)
	}
	for i := 0; i < r.intn(3); i++ {
		in.Meta.Messages = append(in.Meta.Messages, text(10))
	}
	in.Meta.Nospace = pick(r, []string{"", "/", "/=", "*", "é", "\"\\", "\x01", "\x7f/", "\v", "\U000f0000", "\u2028"})
	if in.Via == "shell" && r.chance(20) {
		in.EnvNospace = pick(r, []string{"/", ",/=", "*", ":"})
	}
	if in.Via == "shell" && r.chance(35) {
		in.Execute = true
		if r.chance(15) && len(in.Values) > 0 {
			// a document of more than 64 KiB
			in.Values[0].Description = strings.Repeat("long description ", 4500)
		}
	}
	if r.chance(40) {
		in.Meta.Usage = text(10)
	}
	return in
}

// ---- op "import": any byte string offered to ActionImport (C13)

type importIn struct {
	Bytes string `json:"bytes"`
}

func runImport(raw json.RawMessage) interface{} {
	var in importIn
	must(json.Unmarshal(raw, &in))
	res := invokeSafe(carapace.ActionImport([]byte(in.Bytes)), carapace.Context{})
	return map[string]interface{}{"result": res, "goValid": json.Valid([]byte(in.Bytes))}
}

func genImport(r *rng, tier string) interface{} {
	base := genExportRT(r, tier).(exportIn)
	vals := []map[string]interface{}{}
	for _, v := range base.Values {
		m := map[string]interface{}{"value": v.Value, "display": v.Display}
		if v.Description != "" {
			m["description"] = v.Description
		}
		vals = append(vals, m)
	}
	doc := map[string]interface{}{"version": "unknown", "messages": base.Meta.Messages, "nospace": base.Meta.Nospace, "usage": base.Meta.Usage, "values": vals}
	if base.Meta.Messages == nil {
		doc["messages"] = []string{}
	}
	b, _ := json.Marshal(doc)
	s := string(b)
	switch r.intn(14) {
	case 0:
		// valid as it is
	case 1, 2, 3:
		s = s[:r.intn(len(s)+1)] // truncated
	case 4:
		s += pick(r, []string{"}", " trailing", "\n{\"values\":[]}", "x", "]", "null"})
	case 5:
		s = strings.Replace(s, "\"values\":[", "\"values\":{", 1)
	case 6:
		s = strings.Replace(s, "\"nospace\":\"", "\"nospace\":[\"", 1)
	case 7:
		s = strings.Replace(s, "\"version\":\"unknown\"", "\"version\":\"v9.9.9\",\"extra\":{\"a\":[1,2,null]}", 1)
	case 8:
		s = strings.Replace(s, "\"usage\":", "\"usage\":null,\"USAGE\":", 1)
	case 9:
		s = pick(r, []string{"", "null", "[]", "{}", "\"text\"", "42", "true", "{\"values\":null}", "{\"values\":[{\"value\":1}]}", "{\"messages\":\"x\"}", "\xff\xfe", "{\"values\":[{\"value\":\"a\"},"})
	case 10:
		s = strings.Replace(s, ",", ",,", 1)
	case 11:
		s = strings.Replace(s, "\"", "'", 2)
	case 12:
		s = strings.Replace(s, "\"values\":[", "\"values\":[null,", 1)
	default:
		s = " \n\t" + s + " \n"
	}
	return importIn{Bytes: s}
}

func init() {
	ops["exportrt"] = &opDef{gen: genExportRT, run: runExportRT}
	ops["import"] = &opDef{gen: genImport, run: runImport}
}
