package main

import (
	"github.com/carapace-sh/carapace/third_party/github.com/elves/elvish/pkg/ui"
	"encoding/json"
	"os"
	"strings"

	"github.com/carapace-sh/carapace"
	shlex "github.com/carapace-sh/carapace-shlex"
	"github.com/carapace-sh/carapace/pkg/style"
)

// ---- op "value": the formatting pipeline internal/shell.Value for all 13 formats

type fmtEnv struct {
	Unfiltered   bool              `json:"unfiltered"`
	BoolVal      string            `json:"boolVal"` // the text the boolean switches are set to when on or off-by-value ("" = "1" / unset)
	Nospace      string            `json:"nospace"`
	NoColor      bool              `json:"nocolor"`
	CI           bool              `json:"ci"`
	Wordbreaks   *string           `json:"wordbreaks"`
	BashPrefix   string            `json:"bashPrefix"`
	BashCompType string            `json:"bashCompType"`
	ZshRaw       string            `json:"zshRaw"`
	NamedDirs    map[string]string `json:"namedDirs"`
}

type fmtValue struct {
	Value       string `json:"value"`
	Display     string `json:"display"`
	Description string `json:"description"`
	Style       string `json:"style"`
	Tag         string `json:"tag"`
	Uid         string `json:"uid"`
}

type fmtMeta struct {
	Messages []string `json:"messages"`
	Nospace  string   `json:"nospace"`
	Usage    string   `json:"usage"`
}

type fmtIn struct {
	Shell  string     `json:"shell"`
	Word   string     `json:"word"`
	Env    fmtEnv     `json:"env"`
	Meta   fmtMeta    `json:"meta"`
	Values []fmtValue `json:"values"`
}

var allShells = []string{"bash", "bash-ble", "cmd-clink", "elvish", "export", "fish", "ion", "nushell", "oil", "powershell", "tcsh", "xonsh", "zsh"}

var styleBackup = style.Carapace

// alphabet over-weighting every ASCII punctuation character, blanks, controls, non-ASCII
var punct = []string{" ", "&", "<", ">", "'", "\"", "{", "}", "$", "#", "|", "?", "(", ")", ";", "[", "]", "*", "\\", "`", "~", "!", "=", ":", ",", "%", "@", "+", "^", "-", "_", ".", "/"}
var letters = []string{"a", "b", "c", "d", "e", "f", "o", "x", "A", "B", "F", "O", "X", "E", "R", "0", "1"}
var controls = []string{"\t", "\n", "\r"}
var nonascii = []string{"é", "è", "ü", "日", "本", "𝄞", "€", "ß", "é", "日", "€", "\u00a0", "\u200d", "\u00ad", "\u3000", "\ue000", "İ", "\u202f"}

func genText(r *rng, maxLen int, exotic int) string {
	n := r.intn(maxLen + 1)
	var b strings.Builder
	for i := 0; i < n; i++ {
		switch k := r.intn(100); {
		case k < exotic:
			b.WriteString(pick(r, punct))
		case k < exotic+3:
			b.WriteString(pick(r, controls))
		case k < exotic+8:
			b.WriteString(pick(r, nonascii))
		default:
			b.WriteString(pick(r, letters))
		}
	}
	return b.String()
}

func genDescription(r *rng) string {
	switch r.intn(10) {
	case 0, 1, 2:
		return ""
	case 3:
		return genText(r, 12, 20) + "\n" + genText(r, 12, 20)
	case 4:
		return "  " + genText(r, 10, 10) + "  "
	case 5:
		return strings.Repeat(genText(r, 6, 10)+"xy", 10+r.intn(10))
	case 6:
		return " \t "
	default:
		return genText(r, 16, 25)
	}
}

// genFmtCollapse: bash / tcsh replace several candidates by their common prefix when that
// prefix goes beyond what was typed; the prefix contains characters special to the shell and the
// completion type varies (listing vs inserting), so the collapsed single text takes every branch.
func genFmtCollapse(r *rng) fmtIn {
	in := fmtIn{Shell: pick(r, []string{"bash", "bash", "tcsh"})}
	if r.chance(35) {
		// displays and values ordered differently: the common prefix of the values must be taken over
		// all candidates, not over the first and last in display order
		stem := pick(r, []string{"ma", "v", "re"})
		pa, pb := pick(r, []string{"refs/heads/", "x/a/", "k="}), pick(r, []string{"refs/tags/", "x/b/", "q="})
		ds := []string{stem + "in", stem + "int", stem + "ster", stem + "x"}[:3+r.intn(2)]
		for i, d := range ds {
			p := pa
			if i == 1 || (i == 2 && len(ds) == 4) {
				p = pb
			}
			in.Values = append(in.Values, fmtValue{Value: p + d, Display: d})
		}
		in.Word = pick(r, []string{"", pa[:1], pa[:len(pa)/2]})
		if in.Shell == "bash" {
			in.Env.BashCompType = pick(r, []string{"9", "", "63"})
		}
		return in
	}
	common := pick(r, []string{"my file", "a$b", "x;y", "it's", `say "`, "a&b", "p(q", "dir/sub dir/", "k=v w", "été là", "a\\b", "tab*"})
	n := 2 + r.intn(3)
	for i := 0; i < n; i++ {
		v := common + string(rune('a'+i)) + pick(r, []string{"", "x", " y", "/"})
		in.Values = append(in.Values, fmtValue{Value: v, Display: v, Description: pick(r, []string{"", "desc"})})
	}
	cr := []rune(common)
	in.Word = string(cr[:r.intn(len(cr))])
	in.Meta.Nospace = pick(r, []string{"", "", "/", "*"})
	if in.Shell == "bash" {
		in.Env.BashCompType = pick(r, []string{"63", "63", "9", "", "33"})
		if r.chance(30) {
			wb := pick(r, []string{"\"'><=;|&(:", "=:", ""})
			in.Env.Wordbreaks = &wb
		}
	}
	return in
}

// genFmtWordbreak: bash and tcsh complete only the part of the word after the last
// COMP_WORDBREAKS character; the typed word contains such characters and candidates extend it
func genFmtWordbreak(r *rng) fmtIn {
	in := fmtIn{Shell: pick(r, []string{"tcsh", "tcsh", "bash"})}
	wb := pick(r, []string{"=:", "\"'><=;|&(:", "@", ":", " \t\n\"'><=;|&(:"})
	in.Env.Wordbreaks = &wb
	stem := pick(r, []string{"key=", "a:b:", "user@", "k=v:", "--flag=", "x=y=", "p:"})
	n := 1 + r.intn(3)
	for i := 0; i < n; i++ {
		v := stem + pick(r, []string{"val", "v", "other", "va lue", "é"}) + itoa(i)
		in.Values = append(in.Values, fmtValue{Value: v, Display: v, Description: pick(r, []string{"", "desc"})})
	}
	if r.chance(30) {
		in.Values = append(in.Values, fmtValue{Value: "unrelated", Display: "unrelated"})
	}
	if r.chance(25) {
		// a candidate that is exactly the part of the word the shell keeps: nothing is left to insert
		v := stem + pick(r, []string{"", "", "\n", "\t"})
		in.Values = append(in.Values, fmtValue{Value: v, Display: v, Description: pick(r, []string{"", "the stem"})})
		if r.chance(50) {
			in.Values = in.Values[len(in.Values)-1:]
		}
		if r.chance(40) {
			in.Meta.Messages = []string{pick(r, []string{"", "failed", "a message"})}
		}
	}
	if r.chance(20) {
		// candidates that differ inside a multi-byte character only (same lead byte)
		t := stem + pick(r, []string{"", "X"})
		in.Values = []fmtValue{{Value: t + "ß", Display: t + "ß"}, {Value: t + "ü1", Display: t + "ü1", Description: "d"}}
		if r.chance(30) {
			in.Values = append(in.Values, fmtValue{Value: t + "é", Display: t + "é"})
		}
		if r.chance(50) {
			in.Values = []fmtValue{{Value: t + "日本", Display: t + "日本"}, {Value: t + "日曜", Display: t + "日曜"}, {Value: t + "旦", Display: t + "旦"}}
		}
	}
	in.Word = stem + pick(r, []string{"", "v", "va"})
	if r.chance(20) {
		in.Word = stem[:len(stem)-1]
	}
	in.Meta.Nospace = pick(r, []string{"", "", "=", "*"})
	if in.Shell == "bash" {
		if r.chance(60) {
			if i := strings.LastIndexAny(in.Word, "=:@"); i >= 0 && strings.ContainsAny(wb, in.Word[i:i+1]) {
				in.Env.BashPrefix = in.Word[:i+1]
			}
		}
		in.Env.BashCompType = pick(r, []string{"9", "", "63"})
	}
	return in
}

func genFmt(r *rng, tier string) interface{} {
	if r.intn(25) == 0 {
		return genFmtCollapse(r)
	}
	if r.intn(25) == 0 {
		return genFmtWordbreak(r)
	}
	in := fmtIn{}
	in.Shell = pick(r, allShells)
	// exotic level: most cases have few special characters so that single features are isolated
	exotic := pick(r, []int{0, 5, 5, 15, 15, 40})
	nvals := pick(r, []int{0, 1, 1, 2, 2, 3, 3, 4, 5, 8})
	if r.intn(400) == 0 {
		nvals = 498 + r.intn(6)
	}
	common := ""
	if r.chance(40) {
		common = genText(r, 4, exotic)
	}
	styles := []string{"", "", "red", "blue", "bold", "bg-red green", "underlined", "reed", "#12", "bold bluee"}
	tags := []string{"", "", "", "files", "shorthand flags", "longhand flags", "other commands"}
	for i := 0; i < nvals; i++ {
		v := common + genText(r, 6, exotic)
		if nvals > 100 {
			v = common + "v" + itoa(i)
		}
		if r.chance(6) {
			v = "~" + v
		}
		if r.chance(4) {
			v = "~/" + v
		}
		if r.chance(4) {
			v = "~nd/" + v
		}
		if r.chance(3) {
			v = "nd/" + v // the name of a named directory, but no tilde: an ordinary relative path
		}
		if r.chance(3) {
			v += pick(r, []string{"ERR", "ERR1", "_", "E"})
		}
		if strings.Trim(v, "\t\r\n") == "" || strings.NewReplacer("\t", "", "\r", "", "\n", "").Replace(v) == "" {
			v += "v" + itoa(i)
		}
		d := v
		if r.chance(20) {
			d = genText(r, 6, exotic)
			if strings.NewReplacer("\t", "", "\r", "", "\n", "").Replace(d) == "" {
				d = "d" + itoa(i)
			}
		}
		in.Values = append(in.Values, fmtValue{Value: v, Display: d, Description: genDescription(r), Style: pick(r, styles), Tag: pick(r, tags)})
	}
	// typed word
	switch k := r.intn(10); {
	case k < 3:
		in.Word = ""
	case k < 8 && len(in.Values) > 0:
		v := []rune(pick(r, in.Values).Value)
		in.Word = string(v[:r.intn(len(v)+1)])
	default:
		in.Word = genText(r, 4, exotic)
	}
	if r.chance(5) {
		in.Word += pick(r, []string{"E", "ER", "ERR"})
	}
	if r.chance(10) {
		in.Word = asciiUpper(in.Word)
	}
	in.Word = strings.NewReplacer("\t", "", "\r", "", "\n", "").Replace(in.Word)
	// meta
	switch r.intn(10) {
	case 0, 1:
		in.Meta.Messages = []string{genText(r, 10, 15)}
	case 2:
		in.Meta.Messages = []string{genText(r, 10, 15), "second " + genText(r, 5, 10)}
	case 3:
		in.Meta.Messages = []string{"multi\nline " + genText(r, 4, 10), "x\x1b[31mred\x1b[0m", "tab\there"}
	}
	if len(in.Meta.Messages) > 0 && r.chance(25) {
		// a partially typed error marker, and words that merely end in its letters
		in.Word += pick(r, []string{"E", "ER", "ERR", "EE", "RE", "EER", "RER", "ERRR", "RR", "xR", "EERR", "_E", "ERE"})
	}
	if len(in.Meta.Messages) > 0 && r.chance(12) {
		// a real candidate that is *displayed* as the error marker but inserted behind the typed prefix
		// (a segment of MultiParts, an element of a list, a value behind Prefix): the marker's own value must move on
		in.Values = append(in.Values, fmtValue{Value: in.Word + "ERR", Display: "ERR", Tag: pick(r, tags)})
		if r.chance(40) {
			in.Values = append(in.Values, fmtValue{Value: in.Word + "ERR1", Display: "ERR1"})
		}
		if r.chance(30) {
			in.Values = append(in.Values, fmtValue{Value: in.Word + "_", Display: "_"})
		}
	}
	in.Meta.Nospace = pick(r, []string{"", "", "", "/", "/=", "*", ":", "a", "/ ", "é"})
	if r.chance(30) && len(in.Values) > 0 {
		// correlate with the candidates: the last character of some value (any repertoire)
		if v := []rune(pick(r, in.Values).Value); len(v) > 0 && v[len(v)-1] != '\n' && v[len(v)-1] != '\r' && v[len(v)-1] != '\t' {
			in.Meta.Nospace = string(v[len(v)-1])
			if r.chance(30) {
				in.Meta.Nospace += "/"
			}
		}
	}
	if r.chance(20) {
		in.Meta.Usage = genText(r, 10, 15)
	}
	// environment
	in.Env.Unfiltered = r.chance(10)
	if r.chance(15) {
		// boolean switches are on for "1" and "true" only: anything else, though set, means off
		in.Env.BoolVal = pick(r, []string{"true", "1", "0", "false", "no", "off", "TRUE", "yes", "2", " ", "t", "T", "True"})
		in.Env.Unfiltered = in.Env.BoolVal == "true" || in.Env.BoolVal == "1"
	}
	if r.chance(10) {
		in.Env.Nospace = pick(r, []string{"/", "=:", "*", "a"})
	}
	in.Env.NoColor = r.chance(10)
	if in.Env.BoolVal != "" {
		in.Env.NoColor = in.Env.BoolVal == "true" || in.Env.BoolVal == "1"
	}
	in.Env.CI = r.chance(15)
	switch in.Shell {
	case "bash", "tcsh":
		if r.chance(50) {
			wb := pick(r, []string{" \t\n\"'><=;|&(:", "\"'><=;|&(:", "=:", "@", ""})
			in.Env.Wordbreaks = &wb
		}
		if in.Shell == "bash" {
			if r.chance(40) {
				if i := strings.LastIndexAny(in.Word, "=:"); i >= 0 {
					in.Env.BashPrefix = in.Word[:i+1]
				}
			}
			in.Env.BashCompType = pick(r, []string{"", "9", "9", "9", "63", "33", "37", "64"})
		}
	case "zsh":
		switch r.intn(8) {
		case 0:
			in.Env.ZshRaw = "\"" + in.Word
		case 1:
			in.Env.ZshRaw = "'" + in.Word
		case 2:
			in.Env.ZshRaw = "\"" + in.Word + "\""
		case 3:
			in.Env.ZshRaw = "'" + in.Word + "'"
		default:
			in.Env.ZshRaw = in.Word
		}
		if strings.ContainsAny(in.Env.ZshRaw, "\n") {
			in.Env.ZshRaw = in.Word
		}
		if r.chance(50) {
			in.Env.NamedDirs = map[string]string{"nd": "/tmp/nd"}
		}
	}
	return in
}

func asciiUpper(s string) string {
	b := []byte(s)
	for i, c := range b {
		if c >= 'a' && c <= 'z' {
			b[i] = c - 32
		}
	}
	return string(b)
}

func itoa(i int) string {
	b, _ := json.Marshal(i)
	return string(b)
}

func setenvBool(key string, v bool) {
	if v {
		os.Setenv(key, "1")
	} else {
		os.Unsetenv(key)
	}
}

func runFmt(raw json.RawMessage) interface{} {
	var in fmtIn
	must(json.Unmarshal(raw, &in))

	style.Carapace = styleBackup
	setenvBool("CARAPACE_UNFILTERED", in.Env.Unfiltered)
	setenvBool("NO_COLOR", in.Env.NoColor)
	if in.Env.BoolVal != "" {
		os.Setenv("CARAPACE_UNFILTERED", in.Env.BoolVal)
		os.Setenv("NO_COLOR", in.Env.BoolVal)
	}
	os.Unsetenv("CLICOLOR")
	os.Unsetenv("CARAPACE_EXPERIMENTAL")
	os.Unsetenv("CARAPACE_TOOLTIP")
	if in.Env.Nospace != "" {
		os.Setenv("CARAPACE_NOSPACE", in.Env.Nospace)
	} else {
		os.Unsetenv("CARAPACE_NOSPACE")
	}
	if in.Env.Wordbreaks != nil {
		os.Setenv("COMP_WORDBREAKS", *in.Env.Wordbreaks)
	} else {
		os.Unsetenv("COMP_WORDBREAKS")
	}
	// the zsh formatter derives its quoting state from the current token of CARAPACE_COMPLINE
	os.Setenv("CARAPACE_COMPLINE", "cmd "+in.Env.ZshRaw)
	carapace.VerifSetMatch(in.Env.CI)
	carapace.VerifBashState(in.Env.BashPrefix, in.Env.BashCompType)
	carapace.VerifZshNamedDirectories(in.Env.NamedDirs)

	var meta carapace.VerifMeta
	for _, m := range in.Meta.Messages {
		meta.Messages.Add(m)
	}
	if in.Meta.Nospace != "" {
		meta.Nospace.Add([]rune(in.Meta.Nospace)...)
	}
	meta.Usage = in.Meta.Usage
	values := make([]carapace.VerifRawValue, len(in.Values))
	for i, v := range in.Values {
		values[i] = carapace.VerifRawValue{Value: v.Value, Display: v.Display, Description: v.Description, Style: v.Style, Tag: v.Tag, Uid: v.Uid}
	}
	out := carapace.VerifShellValue(in.Shell, in.Word, meta, values)
	style.Carapace = styleBackup
	// the raw text of the current token as the lexer (a dependency) sees it: an input of the zsh model
	rawToken := ""
	if tokens, err := shlex.Split("cmd " + in.Env.ZshRaw); err == nil {
		rawToken = tokens.CurrentToken().RawValue
	}
	// which of the input styles the elvish formatter can express
	styleOk := map[string]bool{}
	for _, v := range in.Values {
		if v.Style != "" {
			styleOk[v.Style] = ui.ParseStyling(v.Style) != nil
		}
	}
	return map[string]interface{}{"raw": out, "errStyle": style.Carapace.Error, "dfltStyle": style.Default, "zshRawToken": rawToken, "styleOk": styleOk}
}

func init() {
	ops["value"] = &opDef{gen: genFmt, run: runFmt}
}
