package main

import (
	"encoding/json"
	"runtime"
	"strconv"
	"strings"
	"sync/atomic"
	"time"

	"github.com/carapace-sh/carapace"
)

// ---- op "timeout": Action.Timeout on wrapped actions of different durations (C19)

type timeoutStep struct {
	Dur int `json:"dur"` // ms the wrapped action runs; -1 = never returns
	Gap int `json:"gap"` // ms to wait after the invocation (lets an abandoned computation finish)
}

type timeoutIn struct {
	D       int           `json:"d"` // ms
	Steps   []timeoutStep `json:"steps"`
	Nested  bool          `json:"nested"`  // Timeout(2d) around Timeout(d)
	EnvProbe bool         `json:"envProbe"` // the wrapped action re-sets a variable of the caller's Context when it finishes (also when abandoned)
	Lazy    string        `json:"lazy"`    // a modifier applied to the wrapped action last before Timeout: the slow work sits behind it
	InBatch bool          `json:"inBatch"` // the wrapped Timeout is one of two Batch members
	Members int           `json:"members"` // > 0: a Batch of that many members, each a blocking computation under its own Timeout(d): the bound holds for the Batch
	CtxProbe bool         `json:"ctxProbe"` // the caller's Context has Args, Parts, Value, Dir of its own: a timely wrapped action sees exactly them
}

// runTimeout: a step answered more than d/2 after its answer was due means the process was
// stalled (scheduler, GC, a loaded machine) - or that Timeout is broken.  The case is run again, up
// to four times; the last attempt is reported whatever it shows, so a real defect still surfaces.
func runTimeout(raw json.RawMessage) interface{} {
	var in timeoutIn
	must(json.Unmarshal(raw, &in))
	var out map[string]interface{}
	for attempt := 1; attempt <= 4; attempt++ {
		o, stalled := runTimeoutOnce(in)
		out = o
		out["attempts"] = attempt
		if !stalled {
			break
		}
	}
	return out
}

func runTimeoutOnce(in timeoutIn) (map[string]interface{}, bool) {
	d := time.Duration(in.D) * time.Millisecond
	release := make(chan struct{})
	released := false
	defer func() { // lets "never returning" computations end with the case
		if !released {
			close(release)
		}
	}()
	var cur atomic.Int64
	var sawCtx atomic.Value
	wrapped := carapace.ActionCallback(func(c carapace.Context) carapace.Action {
		i := int(cur.Load())
		dur := in.Steps[i].Dur
		if dur < 0 {
			<-release
		} else {
			time.Sleep(time.Duration(dur) * time.Millisecond)
		}
		if in.EnvProbe {
			c.Setenv("LANG", "abandoned"+strconv.Itoa(i)) // a variable the caller's Context already defines
		}
		if in.CtxProbe {
			sawCtx.Store("args=" + strings.Join(c.Args, ",") + "|parts=" + strings.Join(c.Parts, ",") + "|value=" + c.Value + "|dir=" + c.Dir)
		}
		// an abandoned computation still produces (and writes) its result
		return carapace.ActionValues("res" + strconv.Itoa(i)).Usage("usage" + strconv.Itoa(i)).NoSpace('x')
	})
	switch in.Lazy {
	case "nospace":
		wrapped = wrapped.NoSpace('x')
	case "callback":
		innerAction := wrapped
		wrapped = carapace.ActionCallback(func(c carapace.Context) carapace.Action { return innerAction })
	case "filterArgs":
		wrapped = wrapped.FilterArgs()
	}
	var altSaw atomic.Value
	alt := carapace.ActionValues("alt").Usage("alternative")
	if in.EnvProbe {
		alt = carapace.ActionCallback(func(c carapace.Context) carapace.Action {
			altSaw.Store(c.Getenv("LANG"))
			return carapace.ActionValues("alt").Usage("alternative")
		})
	}
	a := wrapped.Timeout(d, alt)
	if in.Nested {
		a = a.Timeout(2*d, carapace.ActionValues("outer-alt"))
	}
	if in.InBatch {
		a = carapace.Batch(a, carapace.ActionValues("member")).ToA()
	}
	if in.Members > 0 {
		batch := carapace.Batch()
		for k := 0; k < in.Members; k++ {
			batch = append(batch, wrapped.Timeout(d, alt))
		}
		a = batch.ToA()
	}
	outs := []map[string]interface{}{}
	stalled := false
	callerCtx := carapace.Context{}
	if in.EnvProbe {
		callerCtx.Env = []string{"OTHER=1", "LANG=caller"}
	}
	if in.CtxProbe {
		callerCtx.Args, callerCtx.Parts, callerCtx.Value, callerCtx.Dir = []string{"pos1", "pos2"}, []string{"a", "b"}, "val", "/tmp"
	}
	for i, s := range in.Steps {
		cur.Store(int64(i))
		start := time.Now()
		// watchdog: an answer that does not come at all (the bound is broken) must not hang the harness
		doneCh := make(chan xResult, 1)
		go func() { doneCh <- invokeSafe(a, callerCtx) }()
		var res xResult
		select {
		case res = <-doneCh:
		case <-time.After(d + 3*time.Second):
			if !released {
				released = true
				close(release)
			}
			res = <-doneCh
		}
		elapsed := time.Since(start)
		vals := []string{}
		for _, v := range res.Values {
			vals = append(vals, v.Value)
		}
		o := map[string]interface{}{"values": vals, "usage": res.Usage, "nospace": res.Nospace, "elapsedMs": elapsed.Milliseconds(), "panic": res.Panic}
		if in.CtxProbe {
			saw, _ := sawCtx.Load().(string)
			o["sawCtx"] = saw
		}
		if in.EnvProbe {
			saw, _ := altSaw.Load().(string)
			altSaw.Store("")
			o["altSaw"] = saw                       // what the alternative read ("" = it did not run)
			o["callerSees"] = callerCtx.Getenv("LANG") // what the caller's Context holds after the call
		}
		outs = append(outs, o)
		// the answer is due at min(dur, d); more than d/2 later than that means the process was held up
		due := d
		if s.Dur >= 0 && s.Dur < in.D {
			due = time.Duration(s.Dur) * time.Millisecond
		}
		if (d > 0 && elapsed >= due+d/2) || (d <= 0 && elapsed >= 25*time.Millisecond) {
			stalled = true
		}
		time.Sleep(time.Duration(s.Gap) * time.Millisecond)
	}
	return map[string]interface{}{"outs": outs}, stalled
}

func genTimeout(r *rng, tier string) interface{} {
	in := timeoutIn{D: pick(r, []int{30, 40, 60}), Nested: r.chance(20), InBatch: r.chance(25), Lazy: pick(r, []string{"", "", "nospace", "callback", "filterArgs"})}
	if r.chance(10) {
		// the abandoned computation writes to a variable the caller's Context defines: neither the alternative nor the caller may see it
		in.EnvProbe, in.Nested, in.InBatch, in.Lazy = true, false, false, ""
		in.Steps = []timeoutStep{{Dur: in.D * 3, Gap: in.D * 3}, {Dur: in.D * 3, Gap: in.D * 3}, {Dur: 0, Gap: 0}}
		return in
	}
	if r.intn(40) == 0 {
		// more Timeout-bounded members than the machine has cores, all of them blocking: the Batch answers within the bound too
		return timeoutIn{D: 400, Members: 4 * runtime.NumCPU(), Steps: []timeoutStep{{Dur: -1, Gap: 0}}}
	}
	if r.chance(10) {
		// a timely computation sees the caller's Context as it is
		in.CtxProbe, in.EnvProbe = true, false
		in.Steps = []timeoutStep{{Dur: 0, Gap: 0}, {Dur: in.D / 4, Gap: 0}}
		return in
	}
	if r.intn(120) == 0 {
		// a bound of several seconds around a computation that never returns
		return timeoutIn{D: 5200, Steps: []timeoutStep{{Dur: -1, Gap: 0}}}
	}
	if r.chance(8) {
		// no time at all (an exhausted budget): the alternative at once, a slow computation is not waited for
		in.D = pick(r, []int{0, 0, -5})
		in.Nested = false
		in.Steps = []timeoutStep{{Dur: 150, Gap: 160}, {Dur: 120, Gap: 0}}[:1+r.intn(2)]
		return in
	}
	n := 1 + r.intn(3)
	for i := 0; i < n; i++ {
		dur := pick(r, []int{0, 0, in.D / 4, in.D * 4, in.D * 3, -1})
		gap := 0
		if dur > in.D && r.chance(70) {
			gap = dur // the abandoned computation finishes before the next invocation
		}
		in.Steps = append(in.Steps, timeoutStep{Dur: dur, Gap: gap})
	}
	return in
}

func init() {
	ops["timeout"] = &opDef{gen: genTimeout, run: runTimeout}
	ops["timeoutrace"] = &opDef{gen: genTimeout, run: runTimeout}
}
