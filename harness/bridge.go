package main

import (
	"bytes"
	"encoding/json"
	"fmt"
	"os"
	"path/filepath"
	"strings"

	"github.com/carapace-sh/carapace"
	"github.com/spf13/cobra"
)

// ---- op "bridge": compat.go in both directions (C20)

type bridgeIn struct {
	Dir       string     `json:"dir"` // c2cobra | cobra2c
	Meta      fmtMeta    `json:"meta"`
	Values    []fmtValue `json:"values"`
	Directive int        `json:"directive"`
	CValues   []string   `json:"cvalues"`
	// cobra2c: the directive comes out of a completion function bridged with ActionCobra and the word under the cursor is Typed
	// (otherwise the directive is converted directly and nothing is typed)
	Via   bool   `json:"via"`
	Typed string `json:"typed"`
}

var bridgeDir string

func bridgeScratch() string {
	if bridgeDir == "" {
		d, err := os.MkdirTemp("", "verif-bridge")
		must(err)
		cleanups = append(cleanups, func() { os.RemoveAll(d) })
		os.WriteFile(filepath.Join(d, "a.go"), []byte("x"), 0o644)
		os.WriteFile(filepath.Join(d, "b.txt"), []byte("x"), 0o644)
		os.MkdirAll(filepath.Join(d, "d"), 0o755)
		os.WriteFile(filepath.Join(d, "d", "x.go"), []byte("x"), 0o644)
		os.WriteFile(filepath.Join(d, "d", "y.md"), []byte("x"), 0o644)
		os.MkdirAll(filepath.Join(d, "d", "sub"), 0o755)
		bridgeDir = d
	}
	return bridgeDir
}

func runBridge(raw json.RawMessage) interface{} {
	var in bridgeIn
	must(json.Unmarshal(raw, &in))
	carapace.VerifSetMatch(false)
	if in.Dir == "c2cobra" {
		var meta carapace.VerifMeta
		if in.Meta.Nospace != "" {
			meta.Nospace.Add([]rune(in.Meta.Nospace)...)
		}
		values := make([]carapace.VerifRawValue, len(in.Values))
		for i, v := range in.Values {
			values[i] = carapace.VerifRawValue{Value: v.Value, Display: v.Display, Description: v.Description}
		}
		ia := carapace.VerifAction(meta, values).Invoke(carapace.Context{})
		lines, d := carapace.VerifCobraBridge(ia)
		return map[string]interface{}{"lines": lines, "directive": int(d)}
	}
	a := carapace.VerifDirectiveAction(cobra.ShellCompDirective(in.Directive), in.CValues...)
	if in.Via {
		a = carapace.ActionCobra(func(cmd *cobra.Command, args []string, toComplete string) ([]string, cobra.ShellCompDirective) {
			return append([]string{}, in.CValues...), cobra.ShellCompDirective(in.Directive)
		})
	}
	res := invokeSafe(a, carapace.Context{Dir: bridgeScratch(), Value: in.Typed})
	vals := [][2]string{}
	for _, v := range res.Values {
		vals = append(vals, [2]string{v.Value, v.Description})
	}
	return map[string]interface{}{"values": vals, "messages": res.Messages, "nospace": res.Nospace, "panic": res.Panic}
}

func genBridge(r *rng, tier string) interface{} {
	if r.chance(50) {
		in := bridgeIn{Dir: "c2cobra"}
		n := r.intn(5)
		for i := 0; i < n; i++ {
			v := pick(r, []string{"val", "dir/", "k=", "a:b", "with space", "x", "user:", "é/"})
			d := v
			if r.chance(30) {
				d = pick(r, []string{"disp", "d/", "z"})
			}
			in.Values = append(in.Values, fmtValue{Value: v, Display: d, Description: pick(r, []string{"", "desc", "with\ttab", "a: b", " pad "})})
		}
		in.Meta.Nospace = pick(r, []string{"", "/", "=:", "*", "é"})
		return in
	}
	in := bridgeIn{Dir: "cobra2c", Directive: r.intn(64)}
	if r.chance(40) {
		in.Via = true
		in.Typed = pick(r, []string{"", "a", "b", "d", "d/", "d/x", "o", "t", "x", "go"})
	}
	switch r.intn(5) {
	case 0:
		in.CValues = []string{}
	case 1:
		in.CValues = []string{pick(r, []string{"go", "txt", "md"})}
		if r.chance(50) {
			in.CValues = append(in.CValues, "txt")
		}
	case 2:
		in.CValues = []string{pick(r, []string{"d", "nonexistent", "d/sub"})}
	default:
		n := 1 + r.intn(3)
		for i := 0; i < n; i++ {
			in.CValues = append(in.CValues, pick(r, []string{"one", "two\tsecond", "a b\twith: colon", "k=", "t\t", "pod-1\tRunning\t2d", "x\t\ty", "z\ta\tb\tc"}))
		}
	}
	return in
}

// ---- op "ccomplete": the real `__complete` protocol vs carapace's own serving for the same position

func cobraComplete(spec treeSpec, words []string) (lines []string, perr string) {
	rec := runRecord{}
	cmds := buildTree(spec, &rec)
	registerMarkers(spec, cmds)
	root := cmds[0]
	var out, errb bytes.Buffer
	root.SetOut(&out)
	root.SetErr(&errb)
	root.SetArgs(append([]string{"__complete"}, words...))
	func() {
		defer func() {
			if p := recover(); p != nil {
				perr = fmt.Sprint(p)
			}
		}()
		if err := root.Execute(); err != nil {
			perr = "execute: " + err.Error()
		}
	}()
	for _, l := range strings.Split(out.String(), "\n") {
		if l != "" {
			lines = append(lines, l)
		}
	}
	return
}

func runCComplete(raw json.RawMessage) interface{} {
	var in parseIn
	must(json.Unmarshal(raw, &in))
	os.Setenv("CARAPACE_UNFILTERED", "1")
	defer os.Unsetenv("CARAPACE_UNFILTERED")
	carapace.VerifSetMatch(false)
	cobraSideMarkers = in.CobraSide
	mixedMarkers = in.Mixed && !in.CobraSide
	defer func() { cobraSideMarkers, mixedMarkers = false, false }()
	doc, _, perr := completeLine(in.Tree, in.Words)
	lines, cerr := cobraComplete(in.Tree, in.Words)
	return map[string]interface{}{"export": doc, "panic": perr, "cobra": lines, "cobraErr": cerr, "typedRun": executeLine(in.Tree, in.Words[:len(in.Words)-1])}
}

func genCComplete(r *rng, tier string) interface{} {
	t := genTree(r)
	// positions that ask for values: after a value flag, `--flag=`, or a positional
	words := []string{}
	cur := 0
	if len(t.Cmds) > 1 && r.chance(50) {
		ch := childrenOf(t, 0)
		if len(ch) > 0 {
			cur = pick(r, ch)
			words = append(words, t.Cmds[cur].Name)
		}
	}
	fl := []flagSpec{}
	for _, f := range flagsOf(t, cur) {
		if f.Kind == "string" || f.Kind == "stringSlice" {
			fl = append(fl, f)
		}
	}
	// flags typed before
	for _, f := range flagsOf(t, cur) {
		if r.chance(15) && (f.Kind == "bool" || f.Kind == "count") && !f.Hidden && !f.Deprecated {
			words = append(words, "--"+f.Name)
		}
	}
	switch k := r.intn(9); {
	case k < 2 && len(fl) > 0:
		words = append(words, "--"+pick(r, fl).Name, "")
	case k < 3 && len(fl) > 0:
		words = append(words, "--"+pick(r, fl).Name+"=")
	case k < 4 && len(fl) > 0:
		f := pick(r, fl)
		if f.Short != "" {
			words = append(words, "-"+f.Short, "")
		} else {
			words = append(words, "--"+f.Name, "")
		}
	case k < 6:
		for i := 0; i < r.intn(3); i++ {
			words = append(words, "arg"+itoa(i))
		}
		words = append(words, "")
	case k < 8:
		for i := 0; i < r.intn(3); i++ {
			words = append(words, "arg"+itoa(i))
		}
		words = append(words, "--")
		for i := 0; i < r.intn(3); i++ {
			words = append(words, "darg"+itoa(i))
		}
		words = append(words, "")
	default:
		words = append(words, "--", "")
	}
	return parseIn{Tree: t, Words: words, CobraSide: r.chance(40), Mixed: r.chance(40)}
}

func init() {
	ops["bridge"] = &opDef{gen: genBridge, run: runBridge}
	ops["ccomplete"] = &opDef{gen: genCComplete, run: runCComplete}
}
