package main

import (
	"encoding/json"
	"fmt"
	"os"
	"os/signal"
	"path/filepath"
	"strconv"
	"syscall"
	"time"

	"github.com/carapace-sh/carapace"
	pkgcache "github.com/carapace-sh/carapace/pkg/cache"
	"github.com/carapace-sh/carapace/pkg/cache/key"
)

// ---- op "crashwrite": a write of a cache entry that stops after k bytes, for every k (C15).
// The real write path runs under RLIMIT_FSIZE = k (SIGXFSZ ignored): the write fails part-way
// with EFBIG exactly as on a full disk; then a reader goes through the real cache.

type crashIn struct {
	Flavour  string `json:"flavour"`  // action | raw
	N        int    `json:"n"`        // number of candidates / content size factor
	Previous string `json:"previous"` // none | expired
	Same     bool   `json:"same"`     // new entry has the same shape and length as the old one
	SkipReader bool `json:"skipReader"` // raw flavour: do not judge what a later reader is served (the listed finding), only what the writing call returns
}

func withFileLimit(k int, f func()) {
	var old syscall.Rlimit
	syscall.Getrlimit(syscall.RLIMIT_FSIZE, &old)
	syscall.Setrlimit(syscall.RLIMIT_FSIZE, &syscall.Rlimit{Cur: uint64(k), Max: old.Max})
	defer syscall.Setrlimit(syscall.RLIMIT_FSIZE, &old)
	f()
}

func crashValues(tag string, n int, same bool) []string {
	vs := []string{}
	for i := 0; i < n; i++ {
		if same {
			vs = append(vs, fmt.Sprintf("%s%07d", tag[:1], i))
		} else {
			vs = append(vs, tag+strconv.Itoa(i))
		}
	}
	return vs
}

func crashSite(a carapace.Action, t time.Duration, keys ...key.Key) carapace.Action {
	return a.Cache(t, keys...)
}

func rawSite(t time.Duration, f func() ([]byte, error)) ([]byte, error) {
	return pkgcache.Cache(t, key.String("raw"))(f)
}

func backdate(dir string, secs int) {
	filepath.Walk(dir, func(p string, info os.FileInfo, err error) error {
		if err == nil && !info.IsDir() {
			t := info.ModTime().Add(-time.Duration(secs) * time.Second)
			os.Chtimes(p, t, t)
		}
		return nil
	})
}

func cacheFilesLen(dir string) (n int, total int64) {
	filepath.Walk(dir, func(p string, info os.FileInfo, err error) error {
		if err == nil && !info.IsDir() {
			n++
			total += info.Size()
		}
		return nil
	})
	return
}

func valuesOf(a carapace.Action) []string {
	res := invokeSafe(a, carapace.Context{})
	out := []string{}
	for _, v := range res.Values {
		out = append(out, v.Value)
	}
	if res.Panic != "" {
		out = append(out, "PANIC:"+res.Panic)
	}
	return out
}

func eqStrs(a, b []string) bool {
	if len(a) != len(b) {
		return false
	}
	for i := range a {
		if a[i] != b[i] {
			return false
		}
	}
	return true
}

func runCrash(raw json.RawMessage) interface{} {
	var in crashIn
	must(json.Unmarshal(raw, &in))
	signal.Ignore(syscall.SIGXFSZ)
	oldVals := crashValues("old", in.N, in.Same)
	newVals := crashValues("new", in.N, in.Same)
	recVals := []string{"recomputed"}
	oldEnv := os.Getenv("XDG_CACHE_HOME")
	defer os.Setenv("XDG_CACHE_HOME", oldEnv)

	// length of the new entry: run once without limit
	writerHandedPartial := -1 // raw flavour: the writing call itself returned incomplete bytes without an error (first such k)
	probe := func(k int) (served []string, real bool, fileLen int64, writeErr string) {
		dir, err := os.MkdirTemp("", "verif-crash")
		must(err)
		defer os.RemoveAll(dir)
		os.Setenv("XDG_CACHE_HOME", dir)
		mk := func(vals []string, flag *bool) carapace.Action {
			return crashSite(carapace.ActionCallback(func(c carapace.Context) carapace.Action {
				*flag = true
				return carapace.ActionValues(vals...)
			}), 100*time.Second, key.String("k"))
		}
		rawContent := func(vals []string) []byte { b, _ := json.Marshal(vals); return b }
		var f1, f2, f3 bool
		if in.Flavour == "action" {
			if in.Previous == "expired" {
				valuesOf(mk(oldVals, &f1))
				backdate(dir, 1000)
			}
			if k == -2 {
				// the computation itself is cut short (the process dies inside the callback, here: the callback panics):
				// nothing may be left behind that a later reader takes for an entry
				valuesOf(crashSite(carapace.ActionCallback(func(c carapace.Context) carapace.Action {
					panic("killed inside the callback")
				}), 100*time.Second, key.String("k")))
			} else if k < 0 {
				valuesOf(mk(newVals, &f2))
			} else {
				withFileLimit(k, func() { valuesOf(mk(newVals, &f2)) })
			}
			_, fileLen = cacheFilesLen(dir)
			served = valuesOf(mk(recVals, &f3))
			return served, f3, fileLen, ""
		}
		// raw byte cache
		if in.Previous == "expired" {
			rawSite(100*time.Second, func() ([]byte, error) { return rawContent(oldVals), nil })
			backdate(dir, 1000)
		}
		var werr error
		if k < 0 {
			_, werr = rawSite(100*time.Second, func() ([]byte, error) { return rawContent(newVals), nil })
		} else {
			withFileLimit(k, func() {
				var got []byte
				got, werr = rawSite(100*time.Second, func() ([]byte, error) { return rawContent(newVals), nil })
				if werr == nil && string(got) != string(rawContent(newVals)) && writerHandedPartial < 0 {
					writerHandedPartial = k
				}
			})
		}
		if werr != nil {
			writeErr = werr.Error()
		}
		_, fileLen = cacheFilesLen(dir)
		b, err := rawSite(100*time.Second, func() ([]byte, error) { f3 = true; return rawContent(recVals), nil })
		if err != nil {
			return []string{"ERR:" + err.Error()}, f3, fileLen, writeErr
		}
		return []string{string(b)}, f3, fileLen, writeErr
	}
	_, _, docLen, _ := probe(-1)
	accept := map[string]bool{}
	if in.Flavour == "action" {
		accept[fmt.Sprint(newVals)] = true
		accept[fmt.Sprint(oldVals)] = in.Previous == "expired"
		accept[fmt.Sprint(recVals)] = true
	} else {
		for _, v := range [][]string{newVals, recVals} {
			b, _ := json.Marshal(v)
			accept[fmt.Sprint([]string{string(b)})] = true
		}
		if in.Previous == "expired" {
			b, _ := json.Marshal(oldVals)
			accept[fmt.Sprint([]string{string(b)})] = true
		}
	}
	bad := []map[string]interface{}{}
	offsets := 0
	if in.Flavour == "action" {
		served, real, fileLen, werr := probe(-2)
		offsets++
		if !accept[fmt.Sprint(served)] || (!real && eqStrs(served, recVals)) || eqStrs(served, newVals) {
			bad = append(bad, map[string]interface{}{"k": -2, "served": served, "real": real, "fileLen": fileLen, "writeErr": werr})
		}
	}
	for k := 0; k <= int(docLen)+1; k++ {
		served, real, fileLen, werr := probe(k)
		offsets++
		ok := accept[fmt.Sprint(served)]
		if in.Flavour == "action" && !real && eqStrs(served, recVals) {
			ok = false
		}
		if !ok && len(bad) < 3 && !(in.SkipReader && in.Flavour == "raw") {
			bad = append(bad, map[string]interface{}{"k": k, "served": served, "real": real, "fileLen": fileLen, "writeErr": werr})
		}
	}
	return map[string]interface{}{"docLen": docLen, "offsets": offsets, "bad": bad, "writerHandedPartial": writerHandedPartial}
}

func genCrash(r *rng, tier string) interface{} {
	return crashIn{Flavour: pick(r, []string{"action", "action", "raw"}), N: 1 + r.intn(6), Previous: pick(r, []string{"none", "expired"}), Same: r.chance(50)}
}

func init() {
	ops["crashwrite"] = &opDef{gen: genCrash, run: runCrash}
}
